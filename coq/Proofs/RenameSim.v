(** C15: consistently renaming the variables, parameters and functions of a program does not
    change what it does.  A renaming [rho] of spelled names is consistent when it acts on the
    symbol-table keys through an injective map [kappa]:
      lower_name (rho n) = kappa (lower_name n).
    (Re-casing a name is the special case kappa = identity.)  The interpreter run on the renamed
    program from a renamed environment is, step for step, the renamed run: same values, same
    output, same input consumption, same control flow, errors equal up to the names they mention. *)
From Coq Require Import List ZArith NArith Bool Lia.
From RRSS Require Import Base.Outcome Base.Chars Base.F64 Exec.Val Exec.Ops Front.Ast Front.Poetic Exec.Env Exec.Interp.
Import ListNotations.

Section Rename.
Variable rho kappa : varname -> varname.
Hypothesis rho_key : forall n, lower_name (rho n) = kappa (lower_name n).
Hypothesis kappa_inj : forall a b, varname_eqb (kappa a) (kappa b) = varname_eqb a b.

(** * Renaming a program *)
Definition rn_ident (i : ident) : ident := match i with IVar n => IVar (rho n) | IPronoun => IPronoun end.

Fixpoint rn_primary (p : primary) : primary :=
  match p with
  | PLit l r => PLit l r
  | PIdent i r => PIdent (rn_ident i) r
  | PSubscript a s => PSubscript (rn_primary a) (rn_primary s)
  | PCall n r args => PCall (rho n) r (map rn_expr args)
  | PPop a => PPop (rn_primary a)
  end
with rn_expr (x : expr) : expr :=
  match x with
  | EPrimary p => EPrimary (rn_primary p)
  | EBinary op l f rest => EBinary op (rn_expr l) (rn_expr f) (map rn_expr rest)
  | EUnary op a => EUnary op (rn_expr a)
  end.

Definition rn_lhs (l : lhs) : lhs :=
  match l with LIdent i r => LIdent (rn_ident i) r | LSubscript a s => LSubscript (rn_primary a) (rn_primary s) end.
Definition rn_params (ps : list (varname * range)) : list (varname * range) := map (fun p => (rho (fst p), snd p)) ps.

Fixpoint rn_stmt (s : stmt) : stmt :=
  match s with
  | SAssign d f rest op => SAssign (rn_lhs d) (rn_expr f) (map rn_expr rest) op
  | SPoeticNum d rhs => SPoeticNum (rn_lhs d) (match rhs with PNExpr e => PNExpr (rn_expr e) | PNLit el => PNLit el end)
  | SPoeticStr d t => SPoeticStr (rn_lhs d) t
  | SIf c t e => SIf (rn_expr c) (rn_block t) (match e with Some b => Some (rn_block b) | None => None end)
  | SWhile c b => SWhile (rn_expr c) (rn_block b)
  | SUntil c b => SUntil (rn_expr c) (rn_block b)
  | SInc i r k => SInc (rn_ident i) r k
  | SDec i r k => SDec (rn_ident i) r k
  | SInput d l => SInput (match d with Some x => Some (rn_lhs x) | None => None end) l
  | SOutput e => SOutput (rn_expr e)
  | SMutation op operand d param =>
      SMutation op (rn_primary operand) (match d with Some x => Some (rn_lhs x) | None => None end)
                (match param with Some x => Some (rn_expr x) | None => None end)
  | SRounding dir e => SRounding dir (rn_expr e)
  | SContinue r => SContinue r
  | SBreak r => SBreak r
  | SPush a v =>
      SPush (rn_primary a)
            (match v with
             | Some (PushList f rest) => Some (PushList (rn_expr f) (map rn_expr rest))
             | Some (PushLit el) => Some (PushLit el)
             | None => None
             end)
  | SPop a d => SPop (rn_primary a) (match d with Some x => Some (rn_lhs x) | None => None end)
  | SReturn e => SReturn (rn_expr e)
  | SFunction n r ps b => SFunction (rho n) r (rn_params ps) (rn_block b)
  | SCall n r args => SCall (rho n) r (map rn_expr args)
  end
with rn_block (b : block) : block :=
  match b with
  | BEmpty l => BEmpty l
  | BNonEmpty ss => BNonEmpty (map rn_stmt ss)
  end.

Definition rn_program (p : program) : program := map rn_block p.

(** * Errors mention names *)
Definition rn_sym (x : sym_error) : sym_error :=
  match x with
  | NameNotFound n => NameNotFound (rho n)
  | ExpectedVarFoundFunc n => ExpectedVarFoundFunc (rho n)
  | ExpectedFuncFoundVar n => ExpectedFuncFoundVar (rho n)
  | DuplicateSymbol n => DuplicateSymbol (rho n)
  | DuplicateFunctionArgName n => DuplicateFunctionArgName (rho n)
  end.
Definition rn_enverr (x : env_error) : env_error :=
  match x with SymTableError y => SymTableError (rn_sym y) | other => other end.
Definition rn_err (x : rt_error) : rt_error :=
  match x with REnv y => REnv (rn_enverr y) | other => other end.

(** * Related environments *)
Definition entry_rel (a b : entry) : Prop :=
  match a, b with
  | EVar v, EVar v' => v' = v
  | EFunc ps body, EFunc ps' body' => ps' = rn_params ps /\ body' = rn_block body
  | _, _ => False
  end.
Definition tab_rel (t t' : symtab) : Prop :=
  Forall2 (fun x y => fst y = kappa (fst x) /\ entry_rel (snd x) (snd y)) t t'.
Definition scopes_rel (ss ss' : list symtab) : Prop := Forall2 tab_rel ss ss'.

Record env_rel (e e' : env) : Prop := mkER {
  er_scopes : scopes_rel (scopes e) (scopes e');
  er_last : last_access e' = option_map rho (last_access e);
  er_chan : chan e' = chan e;
  er_steps : steps e' = steps e;
  er_depth : depth e' = depth e
}.

(** results of the pure layers *)
Definition res_rel {E A} (fe : E -> E) (RA : A -> A -> Prop) (r r' : res E A) : Prop :=
  match r, r' with
  | Ok a, Ok a' => RA a a'
  | Err x, Err x' => x' = fe x
  | Panic s, Panic s' => s' = s
  | UB s, UB s' => s' = s
  | OutOfFuel, OutOfFuel => True
  | OverBudget, OverBudget => True
  | _, _ => False
  end.

(** results of the interpreter *)
Definition xres_rel {A} (RA : A -> A -> Prop) (r r' : xres A) : Prop :=
  match r, r' with
  | XOk a e, XOk a' e' => RA a a' /\ env_rel e e'
  | XErr x e, XErr x' e' => x' = rn_err x /\ env_rel e e'
  | XPanic s, XPanic s' => s' = s
  | XUB s, XUB s' => s' = s
  | XOutOfFuel, XOutOfFuel => True
  | XOverBudget, XOverBudget => True
  | _, _ => False
  end.

Definition inner_rel (a b : inner) : Prop :=
  match a, b with
  | IOk x, IOk y => y = x
  | IErr x, IErr y => y = rn_err x
  | _, _ => False
  end.

Lemma xbind_rel {A B} (RA : A -> A -> Prop) (RB : B -> B -> Prop) m m' (k k' : A -> env -> xres B) :
  xres_rel RA m m' ->
  (forall a a' e e', RA a a' -> env_rel e e' -> xres_rel RB (k a e) (k' a' e')) ->
  xres_rel RB (xbind m k) (xbind m' k').
Proof.
  intros Hm Hk. destruct m, m'; cbn in *; try contradiction; auto.
  destruct Hm. auto.
Qed.

Lemma lift_res_rel {E A} (fe : E -> E) (inj : E -> rt_error) (RA : A -> A -> Prop) r r' e e' :
  (forall x, inj (fe x) = rn_err (inj x)) ->
  res_rel fe RA r r' -> env_rel e e' -> xres_rel RA (lift_res inj r e) (lift_res inj r' e').
Proof. intros Hi Hr He. destruct r, r'; cbn in *; try contradiction; auto. subst. split; auto. Qed.

Lemma lift_val_rel {A} (r : vres A) e e' : env_rel e e' -> xres_rel eq (lift_val r e) (lift_val r e').
Proof. intro He. unfold lift_val, lift_res. destruct r; cbn; auto. Qed.

(** * Symbol tables *)
Lemma tab_get_rel k t t' : tab_rel t t' ->
  match tab_get k t, tab_get (kappa k) t' with
  | Some a, Some b => entry_rel a b
  | None, None => True
  | _, _ => False
  end.
Proof.
  induction 1 as [|[k1 e1] [k2 e2] t t' [Hk He] Ht IH]; cbn; auto. cbn in Hk, He. subst k2.
  rewrite kappa_inj. destruct (varname_eqb k k1); auto.
Qed.

Lemma tab_lookup_var_rel n t t' : tab_rel t t' ->
  res_rel rn_sym eq (tab_lookup_var n t) (tab_lookup_var (rho n) t').
Proof.
  intro H. unfold tab_lookup_var. rewrite rho_key. pose proof (tab_get_rel (lower_name n) t t' H) as G.
  destruct (tab_get (lower_name n) t) as [[v|ps b]|], (tab_get (kappa (lower_name n)) t') as [[v'|ps' b']|];
    cbn in *; try contradiction; auto.
Qed.

Lemma tab_lookup_func_rel n t t' : tab_rel t t' ->
  res_rel rn_sym (fun a b => b = (rn_params (fst a), rn_block (snd a))) (tab_lookup_func n t) (tab_lookup_func (rho n) t').
Proof.
  intro H. unfold tab_lookup_func. rewrite rho_key. pose proof (tab_get_rel (lower_name n) t t' H) as G.
  destruct (tab_get (lower_name n) t) as [[v|ps b]|], (tab_get (kappa (lower_name n)) t') as [[v'|ps' b']|];
    cbn in *; try contradiction; auto. destruct G as [-> ->]. reflexivity.
Qed.

Lemma find_var_rel n ss ss' : scopes_rel ss ss' -> res_rel rn_sym eq (find_var n ss) (find_var (rho n) ss').
Proof.
  induction 1 as [|t t' r r' Ht Hr IH]; cbn; auto.
  pose proof (tab_lookup_var_rel n t t' Ht) as G.
  destruct (tab_lookup_var n t) as [v|[]| | | |], (tab_lookup_var (rho n) t') as [v'|[]| | | |];
    cbn in *; try contradiction; try discriminate; auto.
Qed.

Lemma find_func_rel n ss ss' : scopes_rel ss ss' ->
  res_rel rn_sym (fun a b => b = (rn_params (fst a), rn_block (snd a))) (find_func n ss) (find_func (rho n) ss').
Proof.
  induction 1 as [|t t' r r' Ht Hr IH]; cbn; auto.
  pose proof (tab_lookup_func_rel n t t' Ht) as G.
  destruct (tab_lookup_func n t) as [v|[]| | | |], (tab_lookup_func (rho n) t') as [v'|[]| | | |];
    cbn in *; try contradiction; try discriminate; auto.
Qed.

Lemma tab_set_rel k x x' t t' : tab_rel t t' -> entry_rel x x' -> tab_rel (tab_set k x t) (tab_set (kappa k) x' t').
Proof.
  intros H Hx. induction H as [|[k1 e1] [k2 e2] t t' [Hk He] Ht IH]; cbn.
  - constructor; [|constructor]. cbn. auto.
  - cbn in Hk, He. subst k2. rewrite kappa_inj. destruct (varname_eqb k k1).
    + constructor; auto.
    + constructor; auto.
Qed.

Lemma store_var_rel n v ss ss' : scopes_rel ss ss' -> scopes_rel (store_var n v ss) (store_var (rho n) v ss').
Proof.
  induction 1 as [|t t' r r' Ht Hr IH]; cbn; [constructor|].
  pose proof (tab_lookup_var_rel n t t' Ht) as G.
  destruct (tab_lookup_var n t) as [v0|[]| | | |], (tab_lookup_var (rho n) t') as [v0'|[]| | | |];
    cbn in *; try contradiction; try discriminate; try (constructor; auto; fail).
  constructor; auto. rewrite rho_key. apply tab_set_rel; auto. reflexivity.
Qed.

Lemma tab_emplace_rel n x x' t t' : tab_rel t t' -> entry_rel x x' ->
  res_rel rn_sym tab_rel (tab_emplace n x t) (tab_emplace (rho n) x' t').
Proof.
  intros H Hx. unfold tab_emplace. rewrite rho_key. pose proof (tab_get_rel (lower_name n) t t' H) as G.
  destruct (tab_get (lower_name n) t), (tab_get (kappa (lower_name n)) t'); cbn in *; try contradiction; auto.
  unfold tab_rel. apply Forall2_app; auto.
Qed.

Lemma tab_for_call_rel args : forall t t', tab_rel t t' ->
  res_rel rn_sym tab_rel (tab_for_call args t) (tab_for_call (map (fun p => (rho (fst p), snd p)) args) t').
Proof.
  induction args as [|[n v] r IH]; intros t t' H; cbn; auto.
  pose proof (tab_emplace_rel n (EVar v) (EVar v) t t' H eq_refl) as G.
  destruct (tab_emplace n (EVar v) t), (tab_emplace (rho n) (EVar v) t'); cbn in *; try contradiction; auto.
Qed.

(** * Environment operations *)
Lemma env_rel_mk e e' ss ss' la c :
  env_rel e e' -> scopes_rel ss ss' ->
  env_rel (mkEnvB e ss la c) (mkEnvB e' ss' (option_map rho la) c).
Proof. intros [A B Cc D E] H. constructor; cbn; auto. Qed.

Lemma env_lookup_var_rel n e e' : env_rel e e' ->
  res_rel rn_enverr eq (fst (env_lookup_var n e)) (fst (env_lookup_var (rho n) e')) /\
  env_rel (snd (env_lookup_var n e)) (snd (env_lookup_var (rho n) e')).
Proof.
  intro H. unfold env_lookup_var. cbn [fst snd]. split.
  - pose proof (find_var_rel n _ _ (er_scopes _ _ H)) as G.
    destruct (find_var n (scopes e)), (find_var (rho n) (scopes e')); cbn in *; try contradiction; auto. subst. reflexivity.
  - rewrite (er_chan _ _ H). apply (env_rel_mk e e' _ _ (Some n)); auto. apply (er_scopes _ _ H).
Qed.

Lemma env_lookup_func_rel n e e' : env_rel e e' ->
  res_rel rn_enverr (fun a b => b = (rn_params (fst a), rn_block (snd a))) (env_lookup_func n e) (env_lookup_func (rho n) e').
Proof.
  intro H. unfold env_lookup_func. pose proof (find_func_rel n _ _ (er_scopes _ _ H)) as G.
  destruct (find_func n (scopes e)), (find_func (rho n) (scopes e')); cbn in *; try contradiction; auto. subst. reflexivity.
Qed.

Lemma env_last_access_rel e e' : env_rel e e' -> res_rel rn_enverr eq (env_last_access e) (env_last_access e').
Proof.
  intro H. unfold env_last_access. rewrite (er_last _ _ H). destruct (last_access e) as [n|]; cbn; auto.
  pose proof (find_var_rel n _ _ (er_scopes _ _ H)) as G.
  destruct (find_var n (scopes e)), (find_var (rho n) (scopes e')); cbn in *; try contradiction; auto. subst. reflexivity.
Qed.

Lemma env_store_rel n v e e' : env_rel e e' -> env_rel (env_store n v e) (env_store (rho n) v e').
Proof.
  intro H. unfold env_store. rewrite (er_chan _ _ H), (er_last _ _ H).
  apply env_rel_mk; auto. apply store_var_rel. apply (er_scopes _ _ H).
Qed.

Lemma env_create_var_rel n e e' : env_rel e e' ->
  res_rel rn_enverr env_rel (env_create_var n e) (env_create_var (rho n) e').
Proof.
  intro H. unfold env_create_var. pose proof (er_scopes _ _ H) as S.
  destruct S as [|t t' r r' Ht Hr]; cbn; auto.
  pose proof (tab_emplace_rel n (EVar VUndef) (EVar VUndef) t t' Ht eq_refl) as G.
  destruct (tab_emplace n (EVar VUndef) t), (tab_emplace (rho n) (EVar VUndef) t'); cbn in *; try contradiction; auto.
  - rewrite (er_chan _ _ H). apply (env_rel_mk e e' _ _ (Some n)); auto. constructor; auto.
  - subst. reflexivity.
Qed.

Lemma env_create_func_rel n ps b e e' : env_rel e e' ->
  res_rel rn_enverr env_rel (env_create_func n ps b e) (env_create_func (rho n) (rn_params ps) (rn_block b) e').
Proof.
  intro H. unfold env_create_func. pose proof (er_scopes _ _ H) as S.
  destruct S as [|t t' r r' Ht Hr]; cbn; auto.
  pose proof (tab_emplace_rel n (EFunc ps b) (EFunc (rn_params ps) (rn_block b)) t t' Ht (conj eq_refl eq_refl)) as G.
  destruct (tab_emplace n (EFunc ps b) t), (tab_emplace (rho n) (EFunc (rn_params ps) (rn_block b)) t'); cbn in *; try contradiction; auto.
  - rewrite (er_chan _ _ H), (er_last _ _ H). apply env_rel_mk; auto. constructor; auto.
  - subst. reflexivity.
Qed.

Lemma env_push_function_scope_rel args e e' : env_rel e e' ->
  res_rel rn_enverr env_rel (env_push_function_scope args e)
          (env_push_function_scope (map (fun p => (rho (fst p), snd p)) args) e').
Proof.
  intro H. unfold env_push_function_scope.
  pose proof (tab_for_call_rel args [] [] (Forall2_nil _)) as G.
  destruct (tab_for_call args []), (tab_for_call (map (fun p => (rho (fst p), snd p)) args) []); cbn in *; try contradiction; auto.
  - rewrite (er_chan _ _ H), (er_last _ _ H). apply env_rel_mk; auto. constructor; auto. apply (er_scopes _ _ H).
  - subst. reflexivity.
Qed.

Lemma push_scope_rel e e' : env_rel e e' -> env_rel (push_scope e) (push_scope e').
Proof.
  intro H. unfold push_scope. rewrite (er_chan _ _ H), (er_last _ _ H). apply env_rel_mk; auto.
  constructor; [constructor|apply (er_scopes _ _ H)].
Qed.

Lemma scopes_rel_length ss ss' : scopes_rel ss ss' -> length ss' = length ss.
Proof. induction 1; cbn; auto. Qed.

Lemma pop_scope_rel prof e e' : env_rel e e' -> res_rel rn_enverr env_rel (pop_scope prof e) (pop_scope prof e').
Proof.
  intro H. unfold pop_scope. unfold Val.len. rewrite (scopes_rel_length _ _ (er_scopes _ _ H)).
  assert (G : env_rel (mkEnvB e (tl (scopes e)) None (chan e)) (mkEnvB e' (tl (scopes e')) None (chan e'))).
  { rewrite (er_chan _ _ H). apply (env_rel_mk e e' _ _ None); auto.
    destruct (er_scopes _ _ H); cbn; [constructor|auto]. }
  unfold debug_assert. destruct prof; [destruct (1 <? N.of_nat (length (scopes e)))%N|]; cbn; auto.
Qed.

Lemma tick_rel e e' : env_rel e e' ->
  match tick e, tick e' with Some a, Some b => env_rel a b | None, None => True | _, _ => False end.
Proof.
  intros [A B Cc D E]. unfold tick. rewrite D. destruct (steps e =? 0)%N; auto. constructor; cbn; auto; congruence.
Qed.

Lemma enter_call_rel e e' : env_rel e e' ->
  match enter_call e, enter_call e' with Some a, Some b => env_rel a b | None, None => True | _, _ => False end.
Proof.
  intros [A B Cc D E]. unfold enter_call. rewrite E. destruct (depth e =? 0)%N; auto. constructor; cbn; auto; congruence.
Qed.

Lemma leave_call_rel e e' : env_rel e e' -> env_rel (leave_call e) (leave_call e').
Proof. intros [A B Cc D E]. constructor; cbn; auto; congruence. Qed.


(** * Writes *)
Lemma xres_rel_weaken {A} (R1 R2 : A -> A -> Prop) r r' :
  (forall a b, R1 a b -> R2 a b) -> xres_rel R1 r r' -> xres_rel R2 r r'.
Proof. intros H. destruct r, r'; cbn; auto. intros [A1 A2]; auto. Qed.

Lemma lookup_var_x_rel n e e' : env_rel e e' -> xres_rel eq (lookup_var_x n e) (lookup_var_x (rho n) e').
Proof.
  intro H. unfold lookup_var_x. destruct (env_lookup_var_rel n e e' H) as [G1 G2].
  destruct (env_lookup_var n e) as [r e1], (env_lookup_var (rho n) e') as [r' e1']. cbn [fst snd] in *.
  apply (lift_res_rel rn_enverr); auto.
Qed.

Lemma update_result_rel (r : vres (val * option val)) n e1 e1' :
  env_rel e1 e1' ->
  xres_rel inner_rel
    match r with
    | Ok (nv, back) => XOk (IOk back) (env_store n nv e1)
    | Err x => XOk (IErr (RVal x)) e1
    | Panic s => XPanic s | UB s => XUB s | OutOfFuel => XOutOfFuel | OverBudget => XOverBudget
    end
    match r with
    | Ok (nv, back) => XOk (IOk back) (env_store (rho n) nv e1')
    | Err x => XOk (IErr (RVal x)) e1'
    | Panic s => XPanic s | UB s => XUB s | OutOfFuel => XOutOfFuel | OverBudget => XOverBudget
    end.
Proof.
  intro H. destruct r as [[nv back]| | | | |]; cbn; auto. split; auto. apply env_store_rel; auto.
Qed.

Lemma write_var_rel w keys n e e' : env_rel e e' -> xres_rel inner_rel (write_var w keys n e) (write_var w keys (rho n) e').
Proof.
  intro H. unfold write_var. destruct (env_lookup_var_rel n e e' H) as [G1 G2].
  destruct (env_lookup_var n e) as [r e1], (env_lookup_var (rho n) e') as [r' e1']. cbn [fst snd] in *.
  assert (Hnone : xres_rel inner_rel
            match env_create_var n e1 with
            | Ok e2 =>
                match update_path VUndef keys w with
                | Ok (nv, back) => XOk (IOk back) (env_store n nv e2)
                | Err x => XOk (IErr (RVal x)) e2
                | Panic s => XPanic s | UB s => XUB s | OutOfFuel => XOutOfFuel | OverBudget => XOverBudget
                end
            | Err x => XOk (IErr (REnv x)) e1
            | Panic s => XPanic s | UB s => XUB s | OutOfFuel => XOutOfFuel | OverBudget => XOverBudget
            end
            match env_create_var (rho n) e1' with
            | Ok e2 =>
                match update_path VUndef keys w with
                | Ok (nv, back) => XOk (IOk back) (env_store (rho n) nv e2)
                | Err x => XOk (IErr (RVal x)) e2
                | Panic s => XPanic s | UB s => XUB s | OutOfFuel => XOutOfFuel | OverBudget => XOverBudget
                end
            | Err x => XOk (IErr (REnv x)) e1'
            | Panic s => XPanic s | UB s => XUB s | OutOfFuel => XOutOfFuel | OverBudget => XOverBudget
            end).
  { pose proof (env_create_var_rel n e1 e1' G2) as G3.
    destruct (env_create_var n e1), (env_create_var (rho n) e1'); cbn in G3; try contradiction; cbn; auto.
    - apply update_result_rel; auto.
    - subst. split; auto. }
  destruct r as [v| | | | |], r' as [v'| | | | |]; cbn in G1; try contradiction; try exact Hnone.
  subst v'. apply update_result_rel; auto.
Qed.

Lemma write_pronoun_rel w keys e e' : env_rel e e' -> xres_rel inner_rel (write_pronoun w keys e) (write_pronoun w keys e').
Proof.
  intro H. unfold write_pronoun. rewrite (er_last _ _ H). destruct (last_access e) as [n|]; cbn; [|split; auto].
  pose proof (find_var_rel n _ _ (er_scopes _ _ H)) as G.
  destruct (find_var n (scopes e)), (find_var (rho n) (scopes e')); cbn in G; try contradiction; cbn; auto.
  - subst. apply update_result_rel; auto.
  - subst. split; auto.
Qed.

Lemma write_ident_rel w keys i e e' : env_rel e e' ->
  xres_rel inner_rel (write_ident w keys i e) (write_ident w keys (rn_ident i) e').
Proof. intro H. destruct i; cbn; [apply write_var_rel|apply write_pronoun_rel]; auto. Qed.

Lemma settle_rel r r' : xres_rel inner_rel r r' -> xres_rel eq (settle r) (settle r').
Proof.
  destruct r as [[b|x] e| | | | |], r' as [[b'|x'] e'| | | | |]; cbn; try tauto; intros [A B]; try contradiction; auto.
Qed.

Lemma absorb_rel {A} (RA : A -> A -> Prop) (r r' : xres A) k k' :
  xres_rel RA r r' ->
  (forall a a' e e', RA a a' -> env_rel e e' -> xres_rel inner_rel (k a e) (k' a' e')) ->
  xres_rel inner_rel (absorb r k) (absorb r' k').
Proof.
  intros Hr Hk. destruct r, r'; cbn in *; try contradiction; auto.
  all: try (destruct Hr as [Ha He]; subst; auto; split; auto; reflexivity).
Qed.

Lemma not_writable_rel e e' : env_rel e e' -> xres_rel inner_rel (not_writable e) (not_writable e').
Proof. intro H. split; auto. reflexivity. Qed.

Lemma rn_lhs_as_primary d : lhs_as_primary (rn_lhs d) = rn_primary (lhs_as_primary d).
Proof. destruct d; reflexivity. Qed.

(** * The interpreter *)
Section Sim.
Variable prof : profile.

Record SP (f : nat) : Prop := mkSP {
  sp_expr : forall x e e', env_rel e e' -> xres_rel eq (produce_expr prof f x e) (produce_expr prof f (rn_expr x) e');
  sp_primary : forall p e e', env_rel e e' -> xres_rel eq (produce_primary prof f p e) (produce_primary prof f (rn_primary p) e');
  sp_fold : forall op acc l e e', env_rel e e' -> xres_rel eq (fold_rhs prof f op acc l e) (fold_rhs prof f op acc (map rn_expr l) e');
  sp_args : forall l e e', env_rel e e' -> xres_rel eq (produce_args prof f l e) (produce_args prof f (map rn_expr l) e');
  sp_call : forall n args e e', env_rel e e' -> xres_rel eq (call_function prof f n args e) (call_function prof f (rho n) (map rn_expr args) e');
  sp_wprimary : forall w p e e', env_rel e e' -> xres_rel inner_rel (write_primary prof f w p e) (write_primary prof f w (rn_primary p) e');
  sp_wsub : forall w a s keys e e', env_rel e e' ->
      xres_rel inner_rel (write_subscript prof f w a s keys e) (write_subscript prof f w (rn_primary a) (rn_primary s) keys e');
  sp_wexpr : forall w x e e', env_rel e e' -> xres_rel inner_rel (write_expr prof f w x e) (write_expr prof f w (rn_expr x) e');
  sp_wexprs : forall w l e e', env_rel e e' -> xres_rel inner_rel (write_exprs prof f w l e) (write_exprs prof f w (map rn_expr l) e');
  sp_stmt : forall s xs e e', env_rel e e' -> xres_rel eq (exec_stmt prof f s xs e) (exec_stmt prof f (rn_stmt s) xs e');
  sp_block : forall b xs e e', env_rel e e' -> xres_rel eq (exec_block prof f b xs e) (exec_block prof f (rn_block b) xs e');
  sp_stmts : forall ss xs e e', env_rel e e' -> xres_rel eq (exec_stmts prof f ss xs e) (exec_stmts prof f (map rn_stmt ss) xs e');
  sp_loop : forall inv c b xs e e', env_rel e e' ->
      xres_rel eq (exec_loop prof f inv c b xs e) (exec_loop prof f inv (rn_expr c) (rn_block b) xs e')
}.

Lemma SP_0 : SP 0.
Proof. constructor; intros; exact I. Qed.

Lemma ok_rel {A} (a : A) e e' : env_rel e e' -> xres_rel eq (XOk a e) (XOk a e').
Proof. intro H. split; auto. Qed.

Lemma map_fst_rn_params ps : map fst (rn_params ps) = map rho (map fst ps).
Proof. unfold rn_params. rewrite !map_map. reflexivity. Qed.

Lemma combine_rn names vals :
  combine (map rho names) vals = map (fun p : varname * val => (rho (fst p), snd p)) (combine names vals).
Proof. revert vals. induction names as [|n t IH]; intros [|v vs]; cbn; auto. rewrite IH. reflexivity. Qed.

Lemma len_rn_params ps : Val.len (rn_params ps) = Val.len ps.
Proof. unfold Val.len, rn_params. rewrite map_length. reflexivity. Qed.
Lemma len_map_rn (l : list expr) : Val.len (map rn_expr l) = Val.len l.
Proof. unfold Val.len. rewrite map_length. reflexivity. Qed.

Lemma scoped_rel (m m' : xres xstate) (k k' : xstate -> env -> xres xstate) :
  xres_rel eq m m' ->
  (forall xs e e', env_rel e e' -> xres_rel eq (k xs e) (k' xs e')) ->
  xres_rel eq (let+ (xs', e3) := m in let+ (e4, _) := lift_env (pop_scope prof e3) e3 in k xs' e4)
              (let+ (xs', e3) := m' in let+ (e4, _) := lift_env (pop_scope prof e3) e3 in k' xs' e4).
Proof.
  intros Hm Hk. eapply xbind_rel; [exact Hm|]. intros xs xs' e3 e3' -> H3.
  eapply xbind_rel; [apply (lift_res_rel rn_enverr); [reflexivity|apply pop_scope_rel; auto|auto]|].
  intros e4 e4' _ _ H4 _. apply Hk. exact H4.
Qed.

Lemma env_rel_chan e e' c : env_rel e e' -> env_rel (mkEnvB e (scopes e) (last_access e) c) (mkEnvB e' (scopes e') (last_access e') c).
Proof. intro H. rewrite (er_last _ _ H). apply env_rel_mk; auto. apply (er_scopes _ _ H). Qed.

Ltac xb H := eapply xbind_rel; [H|].

Lemma SP_S f : SP f -> SP (S f).
Proof.
  intros [Hexpr Hprimary Hfold Hargs Hcall Hwp Hwsub Hwexpr Hwexprs Hstmt Hblock Hstmts Hloop].
  constructor.
  - (* produce_expr *)
    intros x e e' H. destruct x as [p|op l first rest|op a]; simpl.
    + apply Hprimary; auto.
    + xb ltac:(apply Hexpr; eauto). intros lv lv' e1 e1' <- H1.
      apply (Hfold op lv (first :: rest)); auto.
    + xb ltac:(apply Hexpr; eauto). intros v v' e1 e1' <- H1. apply lift_val_rel; auto.
  - (* produce_primary *)
    intros p e e' H. destruct p as [l r|i r|a s|name r args|a]; simpl.
    + apply ok_rel; auto.
    + destruct i; simpl.
      * apply lookup_var_x_rel; auto.
      * apply (lift_res_rel rn_enverr); [reflexivity|apply env_last_access_rel; auto|auto].
    + xb ltac:(apply Hprimary; eauto). intros av av' e1 e1' <- H1.
      xb ltac:(apply Hprimary; eauto). intros sv sv' e2 e2' <- H2. apply lift_val_rel; auto.
    + apply Hcall; auto.
    + pose proof (settle_rel _ _ (Hwp WPop a e e' H)) as G.
      destruct (settle (write_primary prof f WPop a e)) as [[v|] e1| | | | |],
               (settle (write_primary prof f WPop (rn_primary a) e')) as [[v'|] e1'| | | | |];
        cbn in G; try contradiction; cbn; auto; try (destruct G as [G1 G2]; try discriminate; auto).
      injection G1 as ->. split; auto.
  - (* fold_rhs *)
    intros op acc l e e' H. destruct l as [|x t]; simpl.
    + apply ok_rel; auto.
    + destruct (needs_rhs op acc).
      * xb ltac:(apply Hexpr; eauto). intros bv bv' e1 e1' <- H1.
        xb ltac:(apply lift_val_rel; eauto). intros r r' e2 e2' <- H2. apply Hfold; auto.
      * apply Hfold; auto.
  - (* produce_args *)
    intros l e e' H. destruct l as [|x t]; simpl.
    + apply ok_rel; auto.
    + xb ltac:(apply Hexpr; eauto). intros v v' e1 e1' <- H1.
      xb ltac:(apply Hargs; eauto). intros vs vs' e2 e2' <- H2. apply ok_rel; auto.
  - (* call_function *)
    intros n args e e' H. simpl.
    xb ltac:(apply (lift_res_rel rn_enverr); [reflexivity|apply env_lookup_func_rel; eauto|eauto]).
    intros [params body] fd' e0 e0' -> H0. cbn [fst snd].
    rewrite len_rn_params, len_map_rn.
    destruct (negb (Val.len params =? Val.len args)%N); [split; auto|].
    xb ltac:(apply Hargs; eauto). intros vals vals' e1 e1' <- H1.
    rewrite map_fst_rn_params, combine_rn.
    xb ltac:(apply (lift_res_rel rn_enverr); [reflexivity|apply env_push_function_scope_rel; eauto|eauto]).
    intros e2 e2' _ _ H2 _.
    pose proof (enter_call_rel _ _ H2) as G.
    destruct (enter_call e2) as [e2a|], (enter_call e2') as [e2a'|]; try contradiction; [|exact I].
    xb ltac:(apply Hblock; eauto). intros xs xs' e3 e3' <- H3.
    xb ltac:(apply (lift_res_rel rn_enverr); [reflexivity|apply pop_scope_rel; apply leave_call_rel; eauto|eauto]).
    intros e4 e4' _ _ H4 _. apply ok_rel; auto.
  - (* write_primary *)
    intros w p e e' H. destruct p as [l r|i r|a s|name r args|a]; simpl.
    + apply not_writable_rel; auto.
    + apply write_ident_rel; auto.
    + apply Hwsub; auto.
    + xb ltac:(apply write_var_rel; eauto). intros i1 i1' e1 e1' _ H1.
      xb ltac:(apply Hwexprs; eauto). intros i2 i2' e2 e2' _ H2. apply not_writable_rel; auto.
    + apply Hwp; auto.
  - (* write_subscript *)
    intros w a s keys e e' H. simpl.
    eapply absorb_rel; [apply Hprimary; eauto|]. intros sv sv' e1 e1' <- H1.
    destruct a as [l r|i r|a2 s2|name r args|a2]; simpl.
    + apply not_writable_rel; auto.
    + apply write_ident_rel; auto.
    + apply Hwsub; auto.
    + apply not_writable_rel; auto.
    + apply not_writable_rel; auto.
  - (* write_expr *)
    intros w x e e' H. destruct x as [p|op l first rest|op a]; simpl.
    + apply Hwp; auto.
    + xb ltac:(apply Hwexpr; eauto). intros i1 i1' e1 e1' _ H1.
      xb ltac:(apply (Hwexprs w (first :: rest)); eauto). intros i2 i2' e2 e2' _ H2. apply not_writable_rel; auto.
    + xb ltac:(apply Hwexpr; eauto). intros i1 i1' e1 e1' _ H1. apply not_writable_rel; auto.
  - (* write_exprs *)
    intros w l e e' H. destruct l as [|x t]; simpl.
    + apply not_writable_rel; auto.
    + xb ltac:(apply Hwexpr; eauto). intros i1 i1' e1 e1' _ H1. apply Hwexprs; auto.
  - (* exec_stmt *)
    intros s xs e0 e0' H0. simpl.
    pose proof (tick_rel _ _ H0) as Gt.
    destruct (tick e0) as [e|], (tick e0') as [e'|]; try contradiction; [|exact I].
    rename Gt into H.
    assert (Hwrite : forall w d e1 e1', env_rel e1 e1' ->
              xres_rel eq (let+ (_, e2) := settle (write_primary prof f w (lhs_as_primary d) e1) in XOk xs e2)
                          (let+ (_, e2) := settle (write_primary prof f w (lhs_as_primary (rn_lhs d)) e1') in XOk xs e2)).
    { intros w d e1 e1' H1. rewrite rn_lhs_as_primary.
      xb ltac:(apply settle_rel; apply Hwp; eauto). intros b b' e2 e2' _ H2. apply ok_rel; auto. }
    destruct s as [d first rest op|d rhs|d str_|c th else_|c b|c b|i r k|i r k|dest l|x|op operand dest param|dir operand|r|r|arr value|arr dest|x|name r params body|name r args]; simpl.
    + (* SAssign *)
      eapply xbind_rel with (RA := eq).
      * destruct op as [o|].
        -- rewrite rn_lhs_as_primary. xb ltac:(apply Hprimary; eauto). intros lv lv' e1 e1' <- H1.
           apply (Hfold o lv (first :: rest)); auto.
        -- destruct rest; simpl; [apply Hexpr; auto|split; auto].
      * intros nv nv' e1 e1' <- H1. apply Hwrite; auto.
    + (* SPoeticNum *)
      eapply xbind_rel with (RA := eq).
      * destruct rhs; [apply Hexpr; auto|apply ok_rel; auto].
      * intros nv nv' e1 e1' <- H1. apply Hwrite; auto.
    + apply Hwrite; auto.
    + (* SIf *)
      xb ltac:(apply Hexpr; eauto). intros cv cv' e1 e1' <- H1.
      apply (scoped_rel _ _ (fun xs' e4 => XOk xs' e4) (fun xs' e4 => XOk xs' e4)).
      * destruct (is_truthy cv); [apply Hblock; apply push_scope_rel; auto|].
        destruct else_; [apply Hblock; apply push_scope_rel; auto|apply ok_rel; apply push_scope_rel; auto].
      * intros xs' e4 e4' H4. apply ok_rel; auto.
    + apply Hloop; auto.
    + apply Hloop; auto.
    + xb ltac:(apply settle_rel; apply write_ident_rel; eauto). intros b b' e1 e1' _ H1. apply ok_rel; auto.
    + xb ltac:(apply settle_rel; apply write_ident_rel; eauto). intros b b' e1 e1' _ H1. apply ok_rel; auto.
    + (* SInput *)
      rewrite (er_chan _ _ H).
      xb ltac:(apply (lift_res_rel rn_enverr REnv eq); [reflexivity| |eauto]).
      { unfold chan_input. destruct (take_line (in_rest (chan e)) []) as [[tl0 tr0] fnd0].
        match goal with |- res_rel _ _ (if ?b then _ else _) _ => destruct b end; cbn; auto. }
      intros [ln c'] r' e1 e1' <- H1.
      destruct dest as [d|]; [|apply ok_rel; apply env_rel_chan; auto].
      apply Hwrite. apply env_rel_chan; auto.
    + (* SOutput *)
      xb ltac:(apply Hexpr; eauto). intros v v' e1 e1' <- H1.
      xb ltac:(apply lift_val_rel; eauto). intros txt txt' e2 e2' <- H2.
      rewrite (er_chan _ _ H2). unfold chan_output.
      destruct (out_budget (chan e2)) as [bud|]; [destruct (Val.len (utf8_encode txt ++ [10%N]) <=? bud)%N|]; cbn.
      * split; auto. apply env_rel_chan; auto.
      * split; [reflexivity|apply env_rel_chan; auto].
      * split; auto. apply env_rel_chan; auto.
    + (* SMutation *)
      eapply xbind_rel with (RA := eq).
      * destruct param as [px|]; [|apply ok_rel; auto].
        xb ltac:(apply Hexpr; eauto). intros v v' e1 e1' <- H1. apply ok_rel; auto.
      * intros pv pv' e1 e1' <- H1. destruct dest as [d|].
        -- xb ltac:(apply Hprimary; eauto). intros v v' e2 e2' <- H2.
           xb ltac:(apply lift_val_rel; eauto). intros v2 v2' e3 e3' <- H3. apply Hwrite; auto.
        -- xb ltac:(apply settle_rel; apply Hwp; eauto). intros b b' e2 e2' _ H2. apply ok_rel; auto.
    + (* SRounding *)
      xb ltac:(apply settle_rel; apply Hwexpr; eauto). intros b b' e1 e1' _ H1. apply ok_rel; auto.
    + destruct (debug_assert prof 31 (is_normal (xflag xs))); cbn; auto; try (apply ok_rel; auto).
    + destruct (debug_assert prof 32 (is_normal (xflag xs))); cbn; auto; try (apply ok_rel; auto).
    + (* SPush *)
      destruct value as [[first rest|elems]|]; simpl.
      * xb ltac:(apply (Hargs (first :: rest)); eauto). intros vals vals' e1 e1' <- H1.
        xb ltac:(apply settle_rel; apply Hwp; eauto). intros b b' e2 e2' _ H2. apply ok_rel; auto.
      * xb ltac:(apply settle_rel; apply Hwp; eauto). intros b b' e2 e2' _ H2. apply ok_rel; auto.
      * xb ltac:(apply settle_rel; apply Hwp; eauto). intros b b' e2 e2' _ H2. apply ok_rel; auto.
    + (* SPop *)
      xb ltac:(apply (Hprimary (PPop arr)); eauto). intros back back' e1 e1' <- H1.
      destruct dest as [d|]; [apply Hwrite; auto|apply ok_rel; auto].
    + (* SReturn *)
      destruct (debug_assert prof 33 (match xret xs with None => true | Some _ => false end)); cbn; auto.
      xb ltac:(apply Hexpr; eauto). intros v v' e1 e1' <- H1.
      destruct (debug_assert prof 34 (is_normal (xflag xs))); cbn; auto.
    + (* SFunction *)
      xb ltac:(apply (lift_res_rel rn_enverr); [reflexivity|apply env_create_func_rel; eauto|eauto]).
      intros e1 e1' _ _ H1 _. apply ok_rel; auto.
    + (* SCall *)
      xb ltac:(apply Hcall; eauto). intros v v' e1 e1' _ H1. apply ok_rel; auto.
  - (* exec_block *)
    intros b xs e e' H. destruct b; simpl; [apply ok_rel; auto|apply Hstmts; auto].
  - (* exec_stmts *)
    intros ss xs e e' H. destruct ss as [|s t]; simpl; [apply ok_rel; auto|].
    xb ltac:(apply Hstmt; eauto). intros xs1 xs1' e1 e1' <- H1.
    destruct (skip_rest (xflag xs1)); [apply ok_rel; auto|apply Hstmts; auto].
  - (* exec_loop *)
    intros inv c b xs e0 e0' H0. simpl.
    pose proof (tick_rel _ _ H0) as Gt.
    destruct (tick e0) as [e|], (tick e0') as [e'|]; try contradiction; [|exact I].
    xb ltac:(apply Hexpr; eauto). intros cv cv' e1 e1' <- H1.
    destruct (xorb inv (is_truthy cv)); [|apply ok_rel; auto].
    apply (scoped_rel _ _
             (fun xs' e4 => match xflag xs' with
                            | Normal => exec_loop prof f inv c b xs' e4
                            | Continuing => exec_loop prof f inv c b (mkX Normal (xret xs')) e4
                            | Breaking => XOk (mkX Normal (xret xs')) e4
                            | Returning => XOk xs' e4
                            end)
             (fun xs' e4 => match xflag xs' with
                            | Normal => exec_loop prof f inv (rn_expr c) (rn_block b) xs' e4
                            | Continuing => exec_loop prof f inv (rn_expr c) (rn_block b) (mkX Normal (xret xs')) e4
                            | Breaking => XOk (mkX Normal (xret xs')) e4
                            | Returning => XOk xs' e4
                            end)).
    + apply Hblock. apply push_scope_rel; auto.
    + intros xs' e4 e4' H4. destruct (xflag xs'); try (apply Hloop; auto); apply ok_rel; auto.
Qed.

Theorem SP_all f : SP f.
Proof. induction f; [apply SP_0|apply SP_S; auto]. Qed.

Lemma exec_blocks_rel fuel : forall bs xs e e', env_rel e e' ->
  xres_rel eq (exec_blocks prof fuel bs xs e) (exec_blocks prof fuel (map rn_block bs) xs e').
Proof.
  induction bs as [|b t IH]; intros xs e e' H; cbn [exec_blocks map]; [apply ok_rel; auto|].
  xb ltac:(apply (sp_block fuel (SP_all fuel)); eauto). intros xs1 xs1' e1 e1' <- H1.
  destruct (skip_rest (xflag xs1)); [apply ok_rel; auto|apply IH; auto].
Qed.

Lemma env_init_rel c : env_rel (env_init c) (env_init c).
Proof. constructor; cbn; auto. constructor; constructor. Qed.

(** ** C15: the renamed program behaves as the original *)
Theorem rename_invariance fuel p c :
  xres_rel eq (exec_program prof fuel p c) (exec_program prof fuel (rn_program p) c).
Proof. unfold exec_program, rn_program. apply exec_blocks_rel. apply env_init_rel. Qed.

(** in particular: same outcome class, same control state, same output bytes, same input consumed *)
Corollary rename_same_output fuel p c :
  match exec_program prof fuel p c, exec_program prof fuel (rn_program p) c with
  | XOk xs e, XOk xs' e' => xs' = xs /\ chan e' = chan e
  | XErr x e, XErr x' e' => x' = rn_err x /\ chan e' = chan e
  | XPanic s, XPanic s' => s' = s
  | XUB s, XUB s' => s' = s
  | XOutOfFuel, XOutOfFuel => True
  | XOverBudget, XOverBudget => True
  | _, _ => False
  end.
Proof.
  pose proof (rename_invariance fuel p c) as H.
  destruct (exec_program prof fuel p c), (exec_program prof fuel (rn_program p) c); cbn in H; auto.
  - destruct H as [<- H]. split; auto. apply (er_chan _ _ H).
  - destruct H as [-> H]. split; auto. apply (er_chan _ _ H).
Qed.
End Sim.
End Rename.

(** re-casing (any respelling that leaves every key unchanged) is the case kappa = identity *)
Theorem recase_invariance (rho : varname -> varname) prof fuel p c :
  (forall n, lower_name (rho n) = lower_name n) ->
  xres_rel rho (fun k => k) eq (exec_program prof fuel p c) (exec_program prof fuel (rn_program rho p) c).
Proof.
  intro H. apply (rename_invariance rho (fun k => k)); auto.
Qed.

(** * A consistent renaming that is not a re-casing: exchanging the names of two variables *)
From RRSS Require Import Proofs.LintLaws Proofs.NameLaws.

Lemma strs_eqb_refl l : strs_eqb l l = true.
Proof. induction l as [|x t IH]; cbn; auto. rewrite str_eqb_refl, IH. reflexivity. Qed.
Lemma varname_eqb_refl a : varname_eqb a a = true.
Proof. destruct a; cbn; rewrite ?str_eqb_refl, ?strs_eqb_refl; reflexivity. Qed.
Lemma varname_eqb_iff a b : varname_eqb a b = true <-> a = b.
Proof. split; [apply varname_eqb_eq|intros ->; apply varname_eqb_refl]. Qed.

Section Swap.
Variable a b : varname.
Let ka := lower_name a.
Let kb := lower_name b.

Definition swap_key (k : varname) : varname :=
  if varname_eqb k ka then kb else if varname_eqb k kb then ka else k.
Definition swap_name (n : varname) : varname :=
  if varname_eqb (lower_name n) ka then b else if varname_eqb (lower_name n) kb then a else n.

Lemma swap_name_key n : lower_name (swap_name n) = swap_key (lower_name n).
Proof.
  unfold swap_name, swap_key.
  destruct (varname_eqb (lower_name n) ka); [reflexivity|].
  destruct (varname_eqb (lower_name n) kb); reflexivity.
Qed.

Lemma swap_key_involutive k : swap_key (swap_key k) = k.
Proof.
  unfold swap_key.
  destruct (varname_eqb k ka) eqn:E1.
  - apply varname_eqb_iff in E1. subst k.
    destruct (varname_eqb kb ka) eqn:E2; [apply varname_eqb_iff in E2; auto|]. rewrite varname_eqb_refl. reflexivity.
  - destruct (varname_eqb k kb) eqn:E2.
    + apply varname_eqb_iff in E2. subst k. rewrite varname_eqb_refl. reflexivity.
    + rewrite E1, E2. reflexivity.
Qed.

Lemma swap_key_inj x y : varname_eqb (swap_key x) (swap_key y) = varname_eqb x y.
Proof.
  destruct (varname_eqb x y) eqn:E.
  - apply varname_eqb_iff in E. subst. apply varname_eqb_refl.
  - destruct (varname_eqb (swap_key x) (swap_key y)) eqn:E2; auto.
    apply varname_eqb_iff in E2. apply (f_equal swap_key) in E2. rewrite !swap_key_involutive in E2.
    subst. rewrite varname_eqb_refl in E. discriminate.
Qed.

(** exchanging two names everywhere in a program does not change what it does *)
Theorem swap_invariance prof fuel p c :
  xres_rel swap_name swap_key eq (exec_program prof fuel p c) (exec_program prof fuel (rn_program swap_name p) c).
Proof. apply rename_invariance; [apply swap_name_key|apply swap_key_inj]. Qed.
End Swap.
