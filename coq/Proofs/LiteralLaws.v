(** C02: keyword aliases, and the payloads of number and string literal tokens. *)
From Coq Require Import List ZArith NArith Bool Lia.
From RRSS Require Import Base.Outcome Base.Chars Base.F64 Base.F64Text Front.Ast Front.Token Front.Lexer.
From RRSS Require Import Proofs.LexBasics Proofs.LexPos Proofs.LexSpec.
Import ListNotations.
Open Scope N_scope.

(** * Every alias of the table, in any letter case, is its token type *)
Lemma map_eq_in {A B} (f g : A -> B) l x : map f l = map g l -> In x l -> f x = g x.
Proof.
  induction l as [|y t IH]; cbn; [contradiction|]. intros H [->|Hin]; injection H; auto.
Qed.

Theorem keyword_alias_type a ty : In (a, ty) keywords -> match_keyword a = Some ty.
Proof.
  intro H.
  assert (E : map (fun p => match_keyword (fst p)) keywords = map (fun p => Some (snd p)) keywords)
    by (vm_compute; reflexivity).
  exact (map_eq_in _ _ _ _ E H).
Qed.

Theorem keyword_alias_any_case a ty w :
  In (a, ty) keywords -> str_to_lowercase w = str_to_lowercase a -> match_keyword w = Some ty.
Proof. intros H E. unfold match_keyword. rewrite E. apply (keyword_alias_type a ty H). Qed.

(** * Literal tokens denote their written value *)
Definition payload_ok (t : token) : Prop :=
  match tid t with
  | TNumber v => f64_parse (tspell t) = Some v
  | TStringLiteral x => tspell t = 34 :: x ++ [34]
  | TComment x => tspell t = 40 :: x ++ [41]
  | _ => True
  end.

Lemma maybe_suffix_token prof lx r after r' stg :
  maybe_suffix prof lx r after = Ok (r', stg) ->
  lr_token r' = lr_token r /\ match stg with Some t2 => tid t2 = TApostropheS \/ tid t2 = TApostropheRE | None => True end.
Proof.
  unfold maybe_suffix, scan_apostrophe_suffix. intro H.
  destruct (starts_with (lit "'s") after).
  - destruct (substr prof 42 (byte_len (lit "'s")) after); cbn [bind] in H; try discriminate.
    destruct (make_range_from _ _ _ _); cbn [bind] in H; try discriminate.
    injection H as <- <-. cbn. auto.
  - destruct (starts_with (lit "'re") after).
    + destruct (substr prof 42 (byte_len (lit "'re")) after); cbn [bind] in H; try discriminate.
      destruct (make_range_from _ _ _ _); cbn [bind] in H; try discriminate.
      injection H as <- <-. cbn. auto.
    + cbn [bind] in H. injection H as <- <-. auto.
Qed.

Theorem scan_number_payload prof lx s0 start r stg :
  scan_number prof lx s0 start = Ok (Some (r, stg)) -> payload_ok (lr_token r).
Proof.
  unfold scan_number. destruct s0 as [|c after]; [discriminate|]. intro H.
  destruct (substr prof 43 _ (c :: after)) as [text| | | | |]; cbn [bind] in H; try discriminate.
  destruct (f64_parse text) as [v|] eqn:Ev; [|discriminate].
  destruct (make_range_from _ _ _ _) as [rg| | | | |]; cbn [bind] in H; try discriminate.
  destruct (maybe_suffix prof lx _ _) as [[r' stg']| | | | |] eqn:Em; cbn [bind] in H; try discriminate.
  injection H as <- <-. destruct (maybe_suffix_token _ _ _ _ _ _ Em) as [-> _].
  unfold payload_ok. cbn. exact Ev.
Qed.

Theorem string_literal_payload prof lx c after start r stg :
  scan_delimited prof lx (c :: after) start 34 TStringLiteral (lit "Unterminated string literal") = Ok (r, stg) ->
  c = 34 -> byte_len (c :: after) < u32_limit * u32_limit ->
  payload_ok (lr_token r).
Proof.
  unfold scan_delimited. intros H Hc _. subst c.
  destruct (make_loc_from _ _ start) as [sl| | | | |]; cbn [bind] in H; try discriminate.
  pose proof (scan_close_spec 34 after (start + 1) 0 None) as S.
  destruct (scan_close 34 after (start + 1) 0 None) as [[found nl'] nls'].
  destruct found as [cl|].
  - destruct S as (inner & rest' & Hafter & Hcl & _).
    replace (cl - (start + 1)) with (byte_len inner) in H by lia.
    rewrite Hafter in H. rewrite substr_ok in H. cbn [bind] in H.
    assert (Hs0 : (34 : char) :: inner ++ (34 : char) :: rest' = ((34 : char) :: inner ++ [(34 : char)]) ++ rest') by (cbn; rewrite <- app_assoc; reflexivity).
    assert (Hlen : byte_len ((34 : char) :: inner ++ [(34 : char)]) = cl + 1 - start).
    { cbn [byte_len]. rewrite byte_len_app, byte_len_single. change (utf8_len 34) with 1. lia. }
    rewrite Hs0, <- Hlen in H. rewrite substr_ok in H. cbn [bind] in H.
    destruct (make_loc_from _ _ _) as [el| | | | |]; cbn [bind] in H; try discriminate.
    destruct (maybe_suffix_token _ _ _ _ _ _ H) as [-> _]. unfold payload_ok. cbn. reflexivity.
  - cbn [bind] in H. destruct (make_loc_from _ _ _) as [el| | | | |]; cbn [bind] in H; try discriminate.
    destruct (maybe_suffix_token _ _ _ _ _ _ H) as [-> _]. unfold payload_ok. cbn. exact I.
Qed.
