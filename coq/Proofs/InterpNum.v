(** Every number a run ever holds is a binary64 datum.  [dn v]: every number inside [v] (at any depth of
    arrays and dictionaries) satisfies SpecFloat's [valid_binary] at (53, 1024) — the domain on which Coq's
    SpecFloat operations are IEEE 754 arithmetic (and on which Flocq's theorems about them apply).  The
    interpreter keeps it: literals of the program are valid by hypothesis ([okb]; true of every program the
    parser returns, Proofs/ParseNum.v), arithmetic / rounding / casts / poetic literals stay in the format
    (Proofs/ValValid.v, Proofs/FloatValid.v).  Same induction on fuel as Proofs/InterpWf.v.
    Uses Flocq through FloatValid, hence the classical-reals axioms of the standard library. *)
From Coq Require Import List ZArith NArith Bool Lia Floats.SpecFloat.
From RRSS Require Import Base.Outcome Base.Chars Base.F64 Base.F64Text Exec.Val Exec.Ops Front.Ast Front.Poetic Exec.Env Exec.Interp.
From RRSS Require Import Proofs.ValInd Proofs.InterpWf Proofs.FloatValid Proofs.ValValid.
Import ListNotations.

Fixpoint dn (v : val) : Prop :=
  match v with
  | VNum x => fvalid x
  | VArr a d =>
      (fix all (l : list val) : Prop := match l with [] => True | x :: t => dn x /\ all t end) a
      /\ (fix all (l : list (dkey * val)) : Prop :=
            match l with [] => True | kv :: t => dn (snd kv) /\ all t end) d
  | _ => True
  end.

Lemma dn_arr a d : dn (VArr a d) <-> Forall dn a /\ Forall (fun kv => dn (snd kv)) d.
Proof.
  simpl. split.
  - intros (Ha & Hd). split.
    + clear Hd. induction a as [|x t IH]; constructor; destruct Ha; auto.
    + clear Ha. induction d as [|x t IH]; constructor; destruct Hd; auto.
  - intros (Ha & Hd). split.
    + clear Hd. induction Ha; simpl; auto.
    + clear Ha. induction Hd; simpl; auto.
Qed.

Lemma dn_arr_i a d : Forall dn a -> Forall (fun kv => dn (snd kv)) d -> dn (VArr a d).
Proof. intros. apply (proj2 (dn_arr a d)). auto. Qed.

Lemma dn_nil : dn (VArr [] []).
Proof. cbn. split; exact I. Qed.

Lemma dn_nv v : dn v -> nv v.
Proof. destruct v; cbn; auto. Qed.

Lemma sn_dn v : scalar v -> nv v -> dn v.
Proof. destruct v; cbn; auto; contradiction. Qed.

Lemma sn_res {E} (r : res E val) : wres scalar r -> nvr r -> wres dn r.
Proof. destruct r; cbn; auto. apply sn_dn. Qed.

(** * Arrays *)
Lemma nth_N_dn a : forall i v, Forall dn a -> nth_N a i = Some v -> dn v.
Proof.
  induction a as [|x t IH]; intros i v F H; cbn in H; [discriminate|].
  inversion F; subst. destruct (i =? 0)%N; [injection H as <-; auto|eauto].
Qed.

Lemma set_nth_N_dn a : forall i x, Forall dn a -> dn x -> Forall dn (set_nth_N a i x).
Proof.
  induction a as [|y t IH]; intros i x F Hx; cbn; auto.
  inversion F; subst. destruct (i =? 0)%N; constructor; auto.
Qed.

Lemma repeat_val_dn n : Forall dn (repeat_val n).
Proof. induction n; cbn; constructor; auto. exact I. Qed.

Lemma dict_get_dn k d v : Forall (fun kv => dn (snd kv)) d -> dict_get k d = Some v -> dn v.
Proof.
  intros F H. apply dict_get_in in H. rewrite Forall_forall in F. apply (F (k, v) H).
Qed.

Lemma dict_set_dns k v d :
  Forall (fun kv => dn (snd kv)) d -> dn v -> Forall (fun kv => dn (snd kv)) (dict_set k v d).
Proof.
  induction d as [|[k' v'] t IH]; intros F Hv; cbn.
  - constructor; auto.
  - inversion F; subst. destruct (dkey_eqb k k'); constructor; auto.
Qed.

Lemma v_index_dn self k : dn self -> wres dn (v_index self k).
Proof.
  intro W. destruct self; cbn; auto.
  - destruct k; cbn; auto. unfold index_string. destruct (nth_N s (f_to_usize f)); exact I.
  - apply dn_arr in W as (Fa & Fd). unfold arr_index.
    destruct k; cbn; auto; try (destruct (dict_get _ dict) eqn:E; [eapply dict_get_dn; eauto|exact I]).
    destruct (nth_N arr (f_to_usize f)) eqn:E; [eapply nth_N_dn; eauto|exact I].
Qed.

Lemma v_update_at_dn {X} (QX : X -> Prop) self k (f : val -> vres (val * X)) :
  dn self -> (forall cur, dn cur -> wres (fun p => dn (fst p) /\ QX (snd p)) (f cur)) ->
  wres (fun p => dn (fst p) /\ QX (snd p)) (v_update_at self k f).
Proof.
  intros W Hf. unfold v_update_at.
  assert (W' : dn (match self with VUndef => VArr [] [] | _ => self end)).
  { destruct self; auto. exact dn_nil. }
  destruct (match self with VUndef => VArr [] [] | _ => self end) as [| | | | |a d]; cbn; auto.
  apply dn_arr in W' as (Fa & Fd).
  assert (Hdict : forall dk, wres (fun p => dn (fst p) /\ QX (snd p))
            (let* (nv, x) := f (match dict_get dk d with Some v => v | None => VUndef end) in Ok (VArr a (dict_set dk nv d), x))).
  { intro dk. eapply wres_bind; [apply Hf|].
    - destruct (dict_get dk d) eqn:E; [eapply dict_get_dn; eauto|exact I].
    - intros [nv x] [Hnv Hx]. cbn in *. split; auto. apply dn_arr_i; auto.
      apply dict_set_dns; auto. }
  destruct k; cbn; auto; try apply Hdict.
  destruct (size_budget <=? f_to_usize f0)%N; [exact I|].
  set (a' := if (len a <=? f_to_usize f0)%N then a ++ repeat_val (N.to_nat (f_to_usize f0 + 1 - len a)) else a).
  assert (Fa' : Forall dn a').
  { unfold a'. destruct (len a <=? f_to_usize f0)%N; auto. apply Forall_app. split; auto. apply repeat_val_dn. }
  destruct (nth_N a' (f_to_usize f0)) eqn:E; [|exact I].
  eapply wres_bind; [apply Hf; eapply nth_N_dn; eauto|].
  intros [nv x] [Hnv Hx]. cbn in *. split; auto. apply dn_arr_i; auto. apply set_nth_N_dn; auto.
Qed.

Lemma v_array_coerce_dn v : dn v -> dn (v_array_coerce v).
Proof.
  intro W. destruct v; unfold v_array_coerce; auto; try exact dn_nil; apply dn_arr_i; repeat constructor; auto.
Qed.

Lemma v_push_dn v vals : dn v -> Forall dn vals -> wres dn (v_push v vals).
Proof.
  intros W F. unfold v_push. pose proof (v_array_coerce_dn v W) as Wc.
  destruct (v_array_coerce v); cbn; auto. apply dn_arr in Wc as (Fa & Fd). apply dn_arr_i; auto.
  apply Forall_app. auto.
Qed.

Lemma v_pop_dn v : dn v -> wres (fun p => dn (fst p) /\ dn (snd p)) (v_pop v).
Proof.
  intro W. destruct v; try exact I. apply dn_arr in W as (Fa & Fd).
  destruct arr as [|x t]; unfold v_pop, wres, fst, snd.
  - split; [apply dn_arr_i; auto|exact I].
  - inversion Fa; subst. split; auto. apply dn_arr_i; auto.
Qed.

(** * Scalars: every arithmetic, logical, rounding, casting and joining result is a scalar holding a valid number *)
Lemma binop_apply_dn o a b : dn a -> dn b -> wres dn (binop_apply o a b).
Proof.
  intros Ha Hb. apply dn_nv in Ha. apply dn_nv in Hb. destruct o; cbn; try exact I.
  - apply sn_dn; [apply v_plus_scalar|apply v_plus_nv; auto].
  - apply sn_dn; [apply v_subtract_scalar|apply v_subtract_nv; auto].
  - apply sn_res; [apply v_multiply_scalar|apply v_multiply_nv; auto].
  - apply sn_dn; [apply v_divide_scalar|apply v_divide_nv; auto].
  - destruct (v_equals a b); exact I.
  - destruct (v_equals a b); exact I.
  - destruct (v_compare a b); exact I.
  - destruct (v_compare a b); exact I.
  - destruct (v_compare a b); exact I.
  - destruct (v_compare a b); exact I.
Qed.

Lemma unop_apply_dn o a : dn a -> wres dn (unop_apply o a).
Proof.
  intro Ha. destruct o; cbn; [|exact I]. apply sn_res; [destruct a; exact I|apply v_negate_nv, dn_nv, Ha].
Qed.

Lemma short_result_dn o a : dn (short_result o a).
Proof. destruct o; exact I. Qed.

Lemma v_inc_dn v k : dn v -> wres dn (v_inc v k).
Proof. intro H. apply sn_res; [unfold v_inc; destruct v; cbn; exact I|apply v_inc_nv, dn_nv, H]. Qed.

Lemma v_split_dn v p : wres dn (v_split v p).
Proof.
  unfold v_split. destruct v as [| | | |s|]; cbn; auto.
  assert (Harr : forall l : list str, dn (VArr (map VStr l) [])).
  { intro l. apply dn_arr_i; [|constructor]. induction l; cbn; constructor; auto. exact I. }
  assert (Hchars : forall l : str, dn (VArr (map (fun c => VStr [c]) l) [])).
  { intro l. apply dn_arr_i; [|constructor]. induction l; cbn; constructor; auto. exact I. }
  pose proof dn_nil as Hnil.
  destruct s as [|c s'].
  - destruct p as [d|]; [destruct (is_str d)|]; cbn; auto.
  - eapply wres_bind with (Q := fun _ => True).
    + destruct p as [[]|]; exact I.
    + intros d _. destruct d; cbn; [apply (Hchars (c :: s'))|apply Harr].
Qed.

Lemma v_join_dn v p : wres dn (v_join v p).
Proof.
  unfold v_join. destruct v as [| | | | |a d]; cbn; auto.
  assert (H : wres dn
           (let* d0 := match p with Some (VStr d0) => Ok d0 | Some d0 => Err (InvalidJoinDelimiter d0) | None => Ok [] end in
            match first_non_string (val_iter a d) with
            | Some bad => Err (InvalidArrayElementForJoin bad)
            | None => Ok (VStr (str_join d0 (map str_of_val (val_iter a d))))
            end)).
  { destruct p as [[]|]; cbn; auto; destruct (first_non_string (val_iter a d)); exact I. }
  destruct a, d; auto. destruct p as [x|]; [destruct (is_str x)|]; exact I.
Qed.

Lemma v_cast_dn v p : wres dn (v_cast v p).
Proof.
  apply sn_res; [|apply v_cast_nv].
  unfold v_cast. destruct v; cbn; auto.
  - destruct p; cbn; auto. destruct (try_to_integer f); cbn; auto.
    destruct (((0 <=? z) && (z <=? u32_max))%Z && is_scalar_value (Z.to_N z)); exact I.
  - destruct p as [[]|]; cbn; auto.
    + destruct (try_to_integer f); cbn; auto. destruct ((0 <=? z) && (z <=? u32_max))%Z; cbn; auto.
      destruct ((2 <=? z) && (z <=? 36))%Z; cbn; auto. destruct (i64_from_str_radix s z); exact I.
    + destruct (f64_parse s); exact I.
Qed.

Lemma apply_mutation_dn op v p : wres dn (apply_mutation op v p).
Proof. destruct op; cbn; [apply v_split_dn|apply v_join_dn|apply v_cast_dn]. Qed.

Lemma apply_round_dn dir v : dn v -> wres dn (apply_round dir v).
Proof.
  intro H. destruct (v_round_nv v (dn_nv v H)) as (R1 & R2 & R3).
  destruct dir; cbn; apply sn_res; auto; destruct v; exact I.
Qed.

(** * Write closures *)
Definition dn_wop (w : wop) : Prop :=
  match w with
  | WAssign v => dn v
  | WPush vals => Forall dn vals
  | _ => True
  end.

Definition dn_opt (o : option val) : Prop := match o with Some v => dn v | None => True end.

Lemma apply_wop_dn w cur : dn_wop w -> dn cur -> wres (fun p => dn (fst p) /\ dn_opt (snd p)) (apply_wop w cur).
Proof.
  intros Hw Hc. destruct w; cbn in *.
  - split; auto.
  - pose proof (v_inc_dn cur k Hc) as H. destruct (v_inc cur k); cbn in *; auto.
  - pose proof (v_push_dn cur vals Hc Hw) as H. destruct (v_push cur vals); cbn in *; auto.
  - pose proof (v_pop_dn cur Hc) as H. destruct (v_pop cur) as [[a x]| | | | |]; cbn in *; auto.
  - pose proof (apply_mutation_dn op cur param) as H. destruct (apply_mutation op cur param); cbn in *; auto.
  - pose proof (apply_round_dn dir cur Hc) as H. destruct (apply_round dir cur); cbn in *; auto.
Qed.

Lemma update_path_dn w keys : forall cur, dn_wop w -> dn cur ->
  wres (fun p => dn (fst p) /\ dn_opt (snd p)) (update_path cur keys w).
Proof.
  induction keys as [|k ks IH]; intros cur Hw Hc; cbn [update_path].
  - apply apply_wop_dn; auto.
  - apply (v_update_at_dn dn_opt); auto.
Qed.

(** * Programs whose number literals are binary64 data *)
Definition okl (l : literal) : bool := match l with LNumber x => valid_binary prec emax x | _ => true end.

Fixpoint okp (p : primary) : bool :=
  match p with
  | PLit l _ => okl l
  | PIdent _ _ => true
  | PSubscript a s => okp a && okp s
  | PCall _ _ args => forallb okx args
  | PPop a => okp a
  end
with okx (x : expr) : bool :=
  match x with
  | EPrimary p => okp p
  | EBinary _ l f rest => okx l && okx f && forallb okx rest
  | EUnary _ a => okx a
  end.

Definition oklhs (l : lhs) : bool := okp (lhs_as_primary l).
Definition okopt {A} (f : A -> bool) (o : option A) : bool := match o with Some a => f a | None => true end.

Fixpoint oks (s : stmt) : bool :=
  match s with
  | SAssign d f rest _ => oklhs d && okx f && forallb okx rest
  | SPoeticNum d rhs => oklhs d && match rhs with PNExpr e => okx e | PNLit _ => true end
  | SPoeticStr d _ => oklhs d
  | SIf c t e => okx c && okb t && match e with Some b => okb b | None => true end
  | SWhile c b | SUntil c b => okx c && okb b
  | SInc _ _ _ | SDec _ _ _ => true
  | SInput d _ => okopt oklhs d
  | SOutput e => okx e
  | SMutation _ operand d param => okp operand && okopt oklhs d && okopt okx param
  | SRounding _ e => okx e
  | SContinue _ | SBreak _ => true
  | SPush a v => okp a && match v with Some (PushList f rest) => okx f && forallb okx rest | _ => true end
  | SPop a d => okp a && okopt oklhs d
  | SReturn e => okx e
  | SFunction _ _ _ b => okb b
  | SCall _ _ args => forallb okx args
  end
with okb (b : block) : bool :=
  match b with
  | BEmpty _ => true
  | BNonEmpty ss => forallb oks ss
  end.

Ltac bsplit := repeat match goal with
  | H : (_ && _)%bool = true |- _ => apply andb_true_iff in H; destruct H
  end.

(** * Environments *)
Definition dn_entry (x : entry) : Prop := match x with EVar v => dn v | EFunc _ b => okb b = true end.
Definition dn_tab (t : symtab) : Prop := Forall (fun kv => dn_entry (snd kv)) t.
Definition dn_env (e : env) : Prop := Forall dn_tab (scopes e).

Lemma tab_get_dn k t x : dn_tab t -> tab_get k t = Some x -> dn_entry x.
Proof.
  induction t as [|[k' e'] r IH]; cbn; [discriminate|]. intros F H. inversion F; subst.
  destruct (varname_eqb k k'); [injection H as <-; auto|auto].
Qed.

Lemma find_var_dn n ss : Forall dn_tab ss -> wres dn (find_var n ss).
Proof.
  induction 1 as [|t r Ht Hr IH]; cbn; auto.
  unfold tab_lookup_var. destruct (tab_get (lower_name n) t) as [[v|ps b]|] eqn:E; cbn; auto.
  apply (tab_get_dn _ _ _ Ht E).
Qed.

Lemma find_func_dn n ss ps b : Forall dn_tab ss -> find_func n ss = Ok (ps, b) -> okb b = true.
Proof.
  induction 1 as [|t r Ht Hr IH]; cbn; [discriminate|].
  unfold tab_lookup_func. destruct (tab_get (lower_name n) t) as [[v|ps' b']|] eqn:E; cbn.
  - discriminate.
  - intro H. injection H as <- <-. apply (tab_get_dn _ _ _ Ht E).
  - exact IH.
Qed.

Lemma tab_set_dn k x t : dn_tab t -> dn_entry x -> dn_tab (tab_set k x t).
Proof.
  induction t as [|[k' e'] r IH]; intros F Hx; cbn.
  - constructor; [exact Hx|constructor].
  - inversion F; subst. destruct (varname_eqb k k'); constructor; cbn in *; auto. apply IH; auto.
Qed.

Lemma store_var_dn n v ss : Forall dn_tab ss -> dn v -> Forall dn_tab (store_var n v ss).
Proof.
  induction 1 as [|t r Ht Hr IH]; intro Hv; cbn; auto.
  destruct (tab_lookup_var n t) as [x|[]| | | |]; try (constructor; auto; fail).
  constructor; auto. apply tab_set_dn; auto.
Qed.

Lemma tab_emplace_dn n x t : dn_tab t -> dn_entry x -> wres dn_tab (tab_emplace n x t).
Proof.
  intros F Hx. unfold tab_emplace. destruct (tab_get (lower_name n) t); cbn; auto.
  apply Forall_app. split; auto.
Qed.

Lemma tab_for_call_dn args : forall t, dn_tab t -> Forall (fun p => dn (snd p)) args -> wres dn_tab (tab_for_call args t).
Proof.
  induction args as [|[n v] r IH]; intros t Ht F; cbn; auto.
  inversion F; subst. pose proof (tab_emplace_dn n (EVar v) t Ht H1) as H.
  destruct (tab_emplace n (EVar v) t); cbn in *; auto.
Qed.

Lemma env_store_dn n v e : dn_env e -> dn v -> dn_env (env_store n v e).
Proof. intros W Hv. unfold dn_env, env_store. cbn. apply store_var_dn; auto. Qed.

Lemma env_create_var_dn n e : dn_env e -> wres dn_env (env_create_var n e).
Proof.
  intro W. unfold env_create_var. unfold dn_env in W. destruct (scopes e) as [|t r]; cbn; auto.
  inversion W; subst. pose proof (tab_emplace_dn n (EVar VUndef) t H1 I) as H.
  destruct (tab_emplace n (EVar VUndef) t); cbn in *; auto. constructor; auto.
Qed.

Lemma env_create_func_dn n ps b e : okb b = true -> dn_env e -> wres dn_env (env_create_func n ps b e).
Proof.
  intros Hb W. unfold env_create_func. unfold dn_env in W. destruct (scopes e) as [|t r]; cbn; auto.
  inversion W; subst. pose proof (tab_emplace_dn n (EFunc ps b) t H1 Hb) as H.
  destruct (tab_emplace n (EFunc ps b) t); cbn in *; auto. constructor; auto.
Qed.

Lemma env_push_function_scope_dn args e :
  dn_env e -> Forall (fun p => dn (snd p)) args -> wres dn_env (env_push_function_scope args e).
Proof.
  intros W F. unfold env_push_function_scope.
  pose proof (tab_for_call_dn args [] (Forall_nil _) F) as H.
  destruct (tab_for_call args []); cbn in *; auto. constructor; auto.
Qed.

Lemma pop_scope_dn prof e : dn_env e -> wres dn_env (pop_scope prof e).
Proof.
  intro W. unfold pop_scope. destruct (debug_assert prof 20 (1 <? len (scopes e))%N); cbn; auto.
  unfold dn_env in *. cbn. destruct (scopes e); cbn; auto. inversion W; auto.
Qed.

Lemma push_scope_dn e : dn_env e -> dn_env (push_scope e).
Proof. intro W. unfold dn_env, push_scope. cbn. constructor; auto. constructor. Qed.

Lemma tick_dn e e' : dn_env e -> tick e = Some e' -> dn_env e'.
Proof. unfold tick. destruct (steps e =? 0)%N; [discriminate|]. intros W H. injection H as <-. exact W. Qed.
Lemma enter_call_dn e e' : dn_env e -> enter_call e = Some e' -> dn_env e'.
Proof. unfold enter_call. destruct (depth e =? 0)%N; [discriminate|]. intros W H. injection H as <-. exact W. Qed.

Lemma combine_dn (names : list varname) vals : Forall dn vals -> Forall (fun p : varname * val => dn (snd p)) (combine names vals).
Proof.
  revert vals. induction names as [|n t IH]; intros [|v vs] F; cbn; auto. inversion F; subst. constructor; auto.
Qed.

(** * The interpreter *)
Definition NInv {A} (Q : A -> Prop) (r : xres A) : Prop :=
  match r with
  | XOk a e' => dn_env e' /\ Q a
  | XErr _ e' => dn_env e'
  | _ => True
  end.

Lemma NInv_bind {A B} (Q : A -> Prop) (R : B -> Prop) (m : xres A) (k : A -> env -> xres B) :
  NInv Q m -> (forall a e, dn_env e -> Q a -> NInv R (k a e)) -> NInv R (xbind m k).
Proof. intros Hm Hk. destruct m; cbn in *; auto. destruct Hm. auto. Qed.

Lemma NInv_lift {E A} (inj : E -> rt_error) (Q : A -> Prop) (r : res E A) e :
  dn_env e -> wres Q r -> NInv Q (lift_res inj r e).
Proof. intros W H. destruct r; cbn in *; auto. Qed.

Definition dn_inner (i : inner) : Prop := match i with IOk b => dn_opt b | IErr _ => True end.

Lemma update_result_dn w keys cur n e1 :
  dn_wop w -> dn cur -> dn_env e1 ->
  NInv dn_inner
    match update_path cur keys w with
    | Ok (nv, back) => XOk (IOk back) (env_store n nv e1)
    | Err x => XOk (IErr (RVal x)) e1
    | Panic s => XPanic s | UB s => XUB s | OutOfFuel => XOutOfFuel | OverBudget => XOverBudget
    end.
Proof.
  intros Hw Hc W. pose proof (update_path_dn w keys cur Hw Hc) as H.
  destruct (update_path cur keys w) as [[nv back]| | | | |]; cbn in *; auto.
  destruct H. split; auto. apply env_store_dn; auto.
Qed.

Lemma write_var_dn w keys n e : dn_wop w -> dn_env e -> NInv dn_inner (write_var w keys n e).
Proof.
  intros Hw W. unfold write_var, env_lookup_var. cbn [fst snd].
  set (e1 := mkEnvB e (scopes e) (Some n) (chan e)).
  assert (W1 : dn_env e1) by exact W.
  pose proof (find_var_dn n (scopes e) W) as Hf.
  assert (Hnone : NInv dn_inner
      match env_create_var n e1 with
      | Ok e2 =>
          match update_path VUndef keys w with
          | Ok (nv, back) => XOk (IOk back) (env_store n nv e2)
          | Err x => XOk (IErr (RVal x)) e2
          | Panic s => XPanic s | UB s => XUB s | OutOfFuel => XOutOfFuel | OverBudget => XOverBudget
          end
      | Err x => XOk (IErr (REnv x)) e1
      | Panic s => XPanic s | UB s => XUB s | OutOfFuel => XOutOfFuel | OverBudget => XOverBudget
      end).
  { pose proof (env_create_var_dn n e1 W1) as Hc.
    destruct (env_create_var n e1); cbn [wres] in Hc; try exact I.
    - apply update_result_dn; auto. exact I.
    - split; [exact W1|exact I]. }
  destruct (find_var n (scopes e)) as [v| | | | |]; cbn [map_err wres] in *; try exact Hnone.
  apply update_result_dn; auto.
Qed.

Lemma write_pronoun_dn w keys e : dn_wop w -> dn_env e -> NInv dn_inner (write_pronoun w keys e).
Proof.
  intros Hw W. unfold write_pronoun. destruct (last_access e) as [n|]; [|split; [exact W|exact I]].
  pose proof (find_var_dn n (scopes e) W) as Hf.
  destruct (find_var n (scopes e)); cbn [wres] in Hf; try exact I.
  - apply update_result_dn; auto.
  - split; [exact W|exact I].
Qed.

Lemma write_ident_dn w keys i e : dn_wop w -> dn_env e -> NInv dn_inner (write_ident w keys i e).
Proof. intros. destruct i; cbn; [apply write_var_dn|apply write_pronoun_dn]; auto. Qed.

Lemma settle_dn r : NInv dn_inner r -> NInv dn_opt (settle r).
Proof. destruct r as [[b|x] e| | | | |]; cbn; auto. intros [A _]. exact A. Qed.

Lemma absorb_dn {A} (Q : A -> Prop) (r : xres A) k :
  NInv Q r -> (forall a e, dn_env e -> Q a -> NInv dn_inner (k a e)) -> NInv dn_inner (absorb r k).
Proof. intros Hr Hk. destruct r; cbn in *; auto. destruct Hr; auto. Qed.

Lemma not_writable_dn e : dn_env e -> NInv dn_inner (not_writable e).
Proof. intro W. split; auto. exact I. Qed.

Lemma lookup_var_x_dn n e : dn_env e -> NInv dn (lookup_var_x n e).
Proof.
  intro W. unfold lookup_var_x, env_lookup_var.
  apply NInv_lift; [exact W|]. pose proof (find_var_dn n (scopes e) W) as H. destruct (find_var n (scopes e)); cbn in *; auto.
Qed.

Lemma env_last_access_dn e : dn_env e -> wres dn (env_last_access e).
Proof.
  intro W. unfold env_last_access. destruct (last_access e) as [n|]; cbn; auto.
  pose proof (find_var_dn n (scopes e) W) as H. destruct (find_var n (scopes e)); cbn in *; auto.
Qed.

Lemma literal_val_dn l : okl l = true -> dn (literal_val l).
Proof. destruct l; cbn; auto. Qed.

Lemma sum_terms_valid ds : forall expo acc, fvalid acc ->
  fvalid (sum_terms f_of_N fmul fadd (fun n => fpowi (f_of_Z 10) n) ds expo acc).
Proof.
  induction ds as [|d t IH]; intros expo acc Ha; cbn [sum_terms]; auto.
  apply IH. apply fadd_valid; auto. apply fmul_valid; [apply f_of_N_valid|apply fpowi_valid, f_of_Z_valid].
Qed.

Lemma compute_value_valid el : fvalid (compute_value el).
Proof. unfold compute_value, compute_value_gen. apply sum_terms_valid. reflexivity. Qed.

Definition dn_x (xs : xstate) : Prop := dn_opt (xret xs).

Section Main.
Variable prof : profile.

Record NP (f : nat) : Prop := mkNP {
  np_expr : forall x e, okx x = true -> dn_env e -> NInv dn (produce_expr prof f x e);
  np_primary : forall p e, okp p = true -> dn_env e -> NInv dn (produce_primary prof f p e);
  np_fold : forall op acc l e, forallb okx l = true -> dn_env e -> dn acc -> NInv dn (fold_rhs prof f op acc l e);
  np_args : forall l e, forallb okx l = true -> dn_env e -> NInv (Forall dn) (produce_args prof f l e);
  np_call : forall n args e, forallb okx args = true -> dn_env e -> NInv dn (call_function prof f n args e);
  np_wprimary : forall w p e, okp p = true -> dn_wop w -> dn_env e -> NInv dn_inner (write_primary prof f w p e);
  np_wsub : forall w a s keys e, okp a = true -> okp s = true -> dn_wop w -> dn_env e -> NInv dn_inner (write_subscript prof f w a s keys e);
  np_wexpr : forall w x e, okx x = true -> dn_wop w -> dn_env e -> NInv dn_inner (write_expr prof f w x e);
  np_wexprs : forall w l e, forallb okx l = true -> dn_wop w -> dn_env e -> NInv dn_inner (write_exprs prof f w l e);
  np_stmt : forall s xs e, oks s = true -> dn_env e -> dn_x xs -> NInv dn_x (exec_stmt prof f s xs e);
  np_block : forall b xs e, okb b = true -> dn_env e -> dn_x xs -> NInv dn_x (exec_block prof f b xs e);
  np_stmts : forall ss xs e, forallb oks ss = true -> dn_env e -> dn_x xs -> NInv dn_x (exec_stmts prof f ss xs e);
  np_loop : forall inv c b xs e, okx c = true -> okb b = true -> dn_env e -> dn_x xs -> NInv dn_x (exec_loop prof f inv c b xs e)
}.

Lemma NP_0 : NP 0.
Proof. constructor; intros; exact I. Qed.

Ltac wb H := eapply NInv_bind; [H|].

Lemma ok_dn {A} (Q : A -> Prop) a e : dn_env e -> Q a -> NInv Q (XOk a e).
Proof. intros. split; auto. Qed.

Lemma scoped_dn (m : xres xstate) (k : xstate -> env -> xres xstate) :
  NInv dn_x m -> (forall xs e, dn_env e -> dn_x xs -> NInv dn_x (k xs e)) ->
  NInv dn_x (let+ (xs', e3) := m in let+ (e4, _) := lift_env (pop_scope prof e3) e3 in k xs' e4).
Proof.
  intros Hm Hk. wb ltac:(exact Hm). intros xs e3 W3 Hx.
  pose proof (pop_scope_dn prof e3 W3) as Hp. unfold lift_env, lift_res.
  destruct (pop_scope prof e3); cbn in *; auto.
Qed.

Lemma oklhs_p d : oklhs d = true -> okp (lhs_as_primary d) = true.
Proof. auto. Qed.

Lemma NP_S f : NP f -> NP (S f).
Proof.
  intros [Hexpr Hprimary Hfold Hargs Hcall Hwp Hwsub Hwexpr Hwexprs Hstmt Hblock Hstmts Hloop].
  constructor.
  - intros x e K W. destruct x as [p|op l first rest|op a]; simpl in *; bsplit.
    + apply Hprimary; auto.
    + wb ltac:(apply Hexpr; eauto). intros lv e1 W1 Hl. apply Hfold; auto. cbn. apply andb_true_iff; auto.
    + wb ltac:(apply Hexpr; eauto). intros v e1 W1 Hv. apply NInv_lift; auto. apply unop_apply_dn; auto.
  - intros p e K W. destruct p as [l r|i r|a s|name r args|a]; simpl in *; bsplit.
    + apply ok_dn; auto. apply literal_val_dn; auto.
    + destruct i; simpl; [apply lookup_var_x_dn; auto|apply NInv_lift; auto; apply env_last_access_dn; auto].
    + wb ltac:(apply Hprimary; eauto). intros av e1 W1 Ha.
      wb ltac:(apply Hprimary; eauto). intros sv e2 W2 Hs. apply NInv_lift; auto. apply v_index_dn; auto.
    + apply Hcall; auto.
    + pose proof (settle_dn _ (Hwp WPop a e K I W)) as G.
      destruct (settle (write_primary prof f WPop a e)) as [[v|] e1| | | | |]; cbn in *; auto.
  - intros op acc l e K W Ha. destruct l as [|x t]; simpl in *; bsplit.
    + apply ok_dn; auto.
    + destruct (needs_rhs op acc).
      * wb ltac:(apply Hexpr; eauto). intros bv e1 W1 Hb.
        wb ltac:(apply NInv_lift; [eauto|apply binop_apply_dn; eauto]). intros r e2 W2 Hr. apply Hfold; auto.
      * apply Hfold; auto. apply short_result_dn.
  - intros l e K W. destruct l as [|x t]; simpl in *; bsplit.
    + apply ok_dn; auto.
    + wb ltac:(apply Hexpr; eauto). intros v e1 W1 Hv.
      wb ltac:(apply Hargs; eauto). intros vs e2 W2 Hvs. apply ok_dn; auto.
  - intros n args e K W. simpl.
    assert (Hlf : NInv (fun pb => okb (snd pb) = true) (lift_env (env_lookup_func n e) e)).
    { unfold lift_env, lift_res, env_lookup_func. destruct (find_func n (scopes e)) as [[ps b]| | | | |] eqn:E; cbn; auto.
      split; auto. eapply find_func_dn; eauto. }
    wb ltac:(exact Hlf).
    intros [params body] e0 W0 Hbody. cbn in Hbody.
    destruct (negb (Val.len params =? Val.len args)%N); [exact W0|].
    wb ltac:(apply Hargs; eauto). intros vals e1 W1 Hvals.
    wb ltac:(apply (NInv_lift REnv dn_env); [eauto|apply env_push_function_scope_dn; [eauto|apply combine_dn; eauto]]).
    intros e2 ex Wx W2.
    destruct (enter_call e2) as [e2'|] eqn:Ee; [|exact I].
    wb ltac:(apply Hblock; [exact Hbody|eapply enter_call_dn; eauto|exact I]). intros xs e3 W3 Hx.
    pose proof (pop_scope_dn prof (leave_call e3) W3) as Hp. unfold lift_env, lift_res.
    destruct (pop_scope prof (leave_call e3)); cbn in *; auto. split; auto;
    unfold dn_x in Hx; destruct (xret xs); auto; exact I.
  - intros w p e K Hw W. destruct p as [l r|i r|a s|name r args|a]; simpl in *; bsplit.
    + apply not_writable_dn; auto.
    + apply write_ident_dn; auto.
    + apply Hwsub; auto.
    + wb ltac:(apply write_var_dn; eauto). intros i1 e1 W1 _.
      wb ltac:(apply Hwexprs; eauto). intros i2 e2 W2 _. apply not_writable_dn; auto.
    + apply Hwp; auto.
  - intros w a s keys e Ka Ks Hw W. simpl.
    eapply absorb_dn; [apply Hprimary; eauto|]. intros sv e1 W1 Hsv.
    destruct a as [l r|i r|a2 s2|name r args|a2]; simpl in *; bsplit; try (apply not_writable_dn; auto).
    + apply write_ident_dn; auto.
    + apply Hwsub; auto.
  - intros w x e K Hw W. destruct x as [p|op l first rest|op a]; simpl in *; bsplit.
    + apply Hwp; auto.
    + wb ltac:(apply Hwexpr; eauto). intros i1 e1 W1 _.
      wb ltac:(apply Hwexprs; [cbn; apply andb_true_iff; eauto|eauto|eauto]). intros i2 e2 W2 _. apply not_writable_dn; auto.
    + wb ltac:(apply Hwexpr; eauto). intros i1 e1 W1 _. apply not_writable_dn; auto.
  - intros w l e K Hw W. destruct l as [|x t]; simpl in *; bsplit.
    + apply not_writable_dn; auto.
    + wb ltac:(apply Hwexpr; eauto). intros i1 e1 W1 _. apply Hwexprs; auto.
  - (* exec_stmt *)
    intros s xs e0 K W0 Hxs. simpl. destruct (tick e0) as [e|] eqn:Et; [|exact I].
    pose proof (tick_dn _ _ W0 Et) as W.
    assert (Hwrite : forall w d e1, oklhs d = true -> dn_wop w -> dn_env e1 ->
              NInv dn_x (let+ (_, e2) := settle (write_primary prof f w (lhs_as_primary d) e1) in XOk xs e2)).
    { intros w d e1 Kd Hw W1. wb ltac:(apply settle_dn; apply Hwp; eauto). intros b e2 W2 _. apply ok_dn; auto. }
    destruct s as [d first rest op|d rhs|d str_|c th else_|c b|c b|i r k|i r k|dest l|x|op operand dest param|dir operand|r|r|arr value|arr dest|x|name r params body|name r args]; simpl in *; bsplit.
    + eapply NInv_bind with (Q := dn).
      * destruct op as [o|].
        -- wb ltac:(apply Hprimary; eauto). intros lv e1 W1 Hl. apply Hfold; auto. cbn. apply andb_true_iff; auto.
        -- destruct rest; simpl; [apply Hexpr; auto|exact W].
      * intros nv e1 W1 Hnv. apply Hwrite; auto.
    + eapply NInv_bind with (Q := dn).
      * destruct rhs; [apply Hexpr; auto|apply ok_dn; auto; apply compute_value_valid].
      * intros nv e1 W1 Hnv. apply Hwrite; auto.
    + apply Hwrite; auto. exact I.
    + wb ltac:(apply Hexpr; eauto). intros cv e1 W1 _.
      apply (scoped_dn _ (fun xs' e4 => XOk xs' e4)).
      * destruct (is_truthy cv); [apply Hblock; auto; apply push_scope_dn; auto|].
        destruct else_; [apply Hblock; auto; apply push_scope_dn; auto|apply ok_dn; auto; apply push_scope_dn; auto].
      * intros xs' e4 W4 Hx. apply ok_dn; auto.
    + apply Hloop; auto.
    + apply Hloop; auto.
    + wb ltac:(apply settle_dn; apply write_ident_dn; [exact I|eauto]). intros b e1 W1 _. apply ok_dn; auto.
    + wb ltac:(apply settle_dn; apply write_ident_dn; [exact I|eauto]). intros b e1 W1 _. apply ok_dn; auto.
    + wb ltac:(apply (NInv_lift REnv any1); [eauto|]).
      { destruct (chan_input (chan e)); exact I. }
      intros [ln c'] e1 W1 _.
      destruct dest as [d|]; [apply Hwrite; [exact K|exact I|exact W1]|apply ok_dn; auto].
    + wb ltac:(apply Hexpr; eauto). intros v e1 W1 _.
      wb ltac:(apply (NInv_lift RVal any1); [eauto|]).
      { destruct (to_string_for_output v); exact I. }
      intros txt e2 W2 _.
      destruct (chan_output txt (chan e2)) as [[c'|ioe| | | |] cf]; cbn; auto.
    + eapply NInv_bind with (Q := dn_opt).
      * destruct param as [px|]; [|apply ok_dn; auto; exact I].
        wb ltac:(apply Hexpr; eauto). intros v e1 W1 Hv. apply ok_dn; auto.
      * intros pv e1 W1 Hpv. destruct dest as [d|].
        -- wb ltac:(apply Hprimary; eauto). intros v e2 W2 Hv.
           wb ltac:(apply NInv_lift; [eauto|apply apply_mutation_dn]). intros v2 e3 W3 Hv2. apply Hwrite; auto.
        -- wb ltac:(apply settle_dn; apply Hwp; [eauto|exact I|eauto]). intros b e2 W2 _. apply ok_dn; auto.
    + wb ltac:(apply settle_dn; apply Hwexpr; [eauto|exact I|eauto]). intros b e1 W1 _. apply ok_dn; auto.
    + destruct (debug_assert prof 31 (is_normal (xflag xs))); cbn; auto.
    + destruct (debug_assert prof 32 (is_normal (xflag xs))); cbn; auto.
    + destruct value as [[first rest|elems]|]; simpl in *; bsplit.
      * wb ltac:(apply Hargs; [cbn; apply andb_true_iff; eauto|eauto]). intros vals e1 W1 Hvals.
        wb ltac:(apply settle_dn; apply Hwp; eauto). intros b e2 W2 _. apply ok_dn; auto.
      * wb ltac:(apply settle_dn; apply Hwp; [eauto|cbn; constructor; [apply compute_value_valid|constructor]|eauto]). intros b e2 W2 _. apply ok_dn; auto.
      * wb ltac:(apply settle_dn; apply Hwp; [eauto|cbn; constructor|eauto]). intros b e2 W2 _. apply ok_dn; auto.
    + wb ltac:(apply (Hprimary (PPop arr)); eauto). intros back e1 W1 Hb.
      destruct dest as [d|]; [apply Hwrite; auto|apply ok_dn; auto].
    + destruct (debug_assert prof 33 (match xret xs with None => true | Some _ => false end)); cbn; auto.
      wb ltac:(apply Hexpr; eauto). intros v e1 W1 Hv.
      destruct (debug_assert prof 34 (is_normal (xflag xs))); cbn; auto.
    + wb ltac:(apply (NInv_lift REnv dn_env); [eauto|apply env_create_func_dn; eauto]).
      intros e1 ex Wx W1. apply ok_dn; auto.
    + wb ltac:(apply Hcall; eauto). intros v e1 W1 _. apply ok_dn; auto.
  - intros b xs e K W Hx. destruct b; simpl in *; [apply ok_dn; auto|apply Hstmts; auto].
  - intros ss xs e K W Hx. destruct ss as [|s t]; simpl in *; bsplit; [apply ok_dn; auto|].
    wb ltac:(apply Hstmt; eauto). intros xs1 e1 W1 Hx1.
    destruct (skip_rest (xflag xs1)); [apply ok_dn; auto|apply Hstmts; auto].
  - intros inv c b xs e0 Kc Kb W0 Hx. simpl. destruct (tick e0) as [e|] eqn:Et; [|exact I].
    pose proof (tick_dn _ _ W0 Et) as W.
    wb ltac:(apply Hexpr; eauto). intros cv e1 W1 _.
    destruct (xorb inv (is_truthy cv)); [|apply ok_dn; auto].
    apply (scoped_dn _ (fun xs' e4 => match xflag xs' with
                                      | Normal => exec_loop prof f inv c b xs' e4
                                      | Continuing => exec_loop prof f inv c b (mkX Normal (xret xs')) e4
                                      | Breaking => XOk (mkX Normal (xret xs')) e4
                                      | Returning => XOk xs' e4
                                      end)).
    + apply Hblock; auto. apply push_scope_dn; auto.
    + intros xs' e4 W4 Hx'. destruct (xflag xs'); try (apply Hloop; auto); apply ok_dn; auto.
Qed.

Theorem NP_all f : NP f.
Proof. induction f; [apply NP_0|apply NP_S; auto]. Qed.

Lemma exec_blocks_dn fuel : forall bs xs e, forallb okb bs = true -> dn_env e -> dn_x xs -> NInv dn_x (exec_blocks prof fuel bs xs e).
Proof.
  induction bs as [|b t IH]; intros xs e K W Hx; cbn [exec_blocks]; [apply ok_dn; auto|].
  cbn in K. bsplit.
  wb ltac:(apply (np_block fuel (NP_all fuel)); eauto). intros xs1 e1 W1 Hx1.
  destruct (skip_rest (xflag xs1)); [apply ok_dn; auto|apply IH; auto].
Qed.

(** ** every environment a run passes through and every value it hands back holds binary64 numbers only *)
Theorem exec_program_dn fuel p c : forallb okb p = true -> NInv dn_x (exec_program prof fuel p c).
Proof. intro K. unfold exec_program. apply exec_blocks_dn; [exact K|repeat constructor|exact I]. Qed.
End Main.

Theorem produce_expr_dn prof f x e a e1 :
  okx x = true -> dn_env e -> produce_expr prof f x e = XOk a e1 -> dn a /\ dn_env e1.
Proof.
  intros K W H. pose proof (np_expr prof f (NP_all prof f) x e K W) as G. rewrite H in G. destruct G; auto.
Qed.
