(** C02, the layout half: the tree the parser builds depends on the *sequence of tokens* (their kinds and
    spellings) only.  Two token lists that agree in kinds and spellings — whatever their byte offsets, ranges,
    line numbers and lexer post-states, i.e. however much ignorable whitespace, punctuation, comments or
    blank space lies between the tokens — are parsed to trees that are equal after erasing source positions,
    or are both rejected.  Poetic *string* literals are raw source text: the relation therefore also asks the
    two sources to agree on the raw text between a `says` token and the end of its line — and likewise for a
    `say` token that is not the first token of its line (the parser accepts `say` as a poetic-string marker
    after a variable; a `say` that starts a line starts an output statement, whose layout is free). *)
From Coq Require Import List ZArith NArith Bool Lia.
From RRSS Require Import Base.Outcome Base.Chars Base.F64 Exec.Ops Front.Ast Front.Token Front.Lexer Front.Parser Front.Grammar.
From RRSS Require Import Proofs.GrammarLaws Proofs.ParseSound.
Import ListNotations.

(** * Erasing positions *)
Definition r0 : range := mkRange (mkLoc 0 0) (mkLoc 0 0).
Definition l0 : loc := mkLoc 0 0.

Fixpoint er_p (p : primary) : primary :=
  match p with
  | PLit l _ => PLit l r0
  | PIdent i _ => PIdent i r0
  | PSubscript a s => PSubscript (er_p a) (er_p s)
  | PCall n _ args => PCall n r0 (map er_e args)
  | PPop a => PPop (er_p a)
  end
with er_e (e : expr) : expr :=
  match e with
  | EPrimary p => EPrimary (er_p p)
  | EBinary o l f rest => EBinary o (er_e l) (er_e f) (map er_e rest)
  | EUnary o x => EUnary o (er_e x)
  end.

Definition er_lhs (l : lhs) : lhs :=
  match l with LIdent i _ => LIdent i r0 | LSubscript a s => LSubscript (er_p a) (er_p s) end.

Definition er_push (v : push_rhs) : push_rhs :=
  match v with PushList f rest => PushList (er_e f) (map er_e rest) | PushLit el => PushLit el end.

Fixpoint er_s (s : stmt) : stmt :=
  match s with
  | SAssign d f rest op => SAssign (er_lhs d) (er_e f) (map er_e rest) op
  | SPoeticNum d (PNExpr e) => SPoeticNum (er_lhs d) (PNExpr (er_e e))
  | SPoeticNum d (PNLit el) => SPoeticNum (er_lhs d) (PNLit el)
  | SPoeticStr d x => SPoeticStr (er_lhs d) x
  | SIf c t e => SIf (er_e c) (er_b t) (option_map er_b e)
  | SWhile c b => SWhile (er_e c) (er_b b)
  | SUntil c b => SUntil (er_e c) (er_b b)
  | SInc i _ k => SInc i r0 k
  | SDec i _ k => SDec i r0 k
  | SInput d _ => SInput (option_map er_lhs d) l0
  | SOutput e => SOutput (er_e e)
  | SMutation o p d x => SMutation o (er_p p) (option_map er_lhs d) (option_map er_e x)
  | SRounding d e => SRounding d (er_e e)
  | SContinue _ => SContinue r0
  | SBreak _ => SBreak r0
  | SPush a v => SPush (er_p a) (option_map er_push v)
  | SPop a d => SPop (er_p a) (option_map er_lhs d)
  | SReturn e => SReturn (er_e e)
  | SFunction n _ ps b => SFunction n r0 (map (fun p => (fst p, r0)) ps) (er_b b)
  | SCall n _ args => SCall n r0 (map er_e args)
  end
with er_b (b : block) : block :=
  match b with
  | BEmpty _ => BEmpty l0
  | BNonEmpty ss => BNonEmpty (map er_s ss)
  end.

Definition er_prog (p : program) : program := map er_b p.

(** * Token lists that agree in kinds and spellings *)
Definition tsim (t t' : token) : Prop := tid t = tid t' /\ tspell t = tspell t'.

Lemma tsim_refl t : tsim t t.
Proof. split; reflexivity. Qed.

Definition resp (m : token -> bool) : Prop := forall t t', tsim t t' -> m t = m t'.

Lemma resp_is_id id : resp (is_id id).
Proof. intros t t' [H _]. unfold is_id. rewrite H. reflexivity. Qed.
Lemma resp_is_one_of ids : resp (is_one_of ids).
Proof. intros t t' [H _]. unfold is_one_of. rewrite H. reflexivity. Qed.
Lemma resp_is_word : resp (fun t => is_word (tspell t)).
Proof. intros t t' [_ H]. rewrite H. reflexivity. Qed.
Lemma resp_minus_hyphen : resp is_minus_hyphen.
Proof. intros t t' [H1 H2]. unfold is_minus_hyphen. rewrite H1, H2. reflexivity. Qed.
Lemma resp_poetic_token : resp is_poetic_number_literal_token.
Proof.
  intros t t' H. unfold is_poetic_number_literal_token. rewrite (resp_minus_hyphen t t' H).
  destruct H as [H1 H2]. rewrite H1, H2. reflexivity.
Qed.

(** * Tokens that end a line *)
Definition bolflag (t : token) : bool := is_id TNewline t && negb (is_word (tspell t)).
Definition nlf (t : token) : Prop := bolflag t = false.

Lemma eqb_newline x : ttype_eqb TNewline x = true -> x = TNewline.
Proof. destruct x; cbn; intro H; try discriminate; reflexivity. Qed.

Lemma tid_nlf t : tid t <> TNewline -> nlf t.
Proof.
  intro H. unfold nlf, bolflag, is_id. destruct (ttype_eqb TNewline (tid t)) eqn:E; [|reflexivity].
  apply eqb_newline in E. contradiction.
Qed.

Lemma word_nlf t : is_word (tspell t) = true -> nlf t.
Proof. intro H. unfold nlf, bolflag. rewrite H. apply andb_false_r. Qed.

Lemma one_of_nlf ids t : existsb (ttype_eqb TNewline) ids = false -> is_one_of ids t = true -> nlf t.
Proof.
  intros Hi Ht. apply tid_nlf. intro E. unfold is_one_of, ttype_in in Ht. rewrite E in Ht. rewrite Hi in Ht. discriminate.
Qed.

Lemma is_id_nlf id t : ttype_eqb TNewline id = false -> is_id id t = true -> nlf t.
Proof.
  intros Hi Ht. apply tid_nlf. intro E. unfold is_id in Ht. rewrite E in Ht.
  destruct id; cbn in *; try discriminate.
Qed.

Lemma g_var_nlf ts n : g_var ts n -> ts <> [] /\ Forall nlf ts.
Proof.
  destruct 1 as [tp tw Hp Hw|t Ht|ts Hl Hf].
  - split; [discriminate|]. constructor; [apply tid_nlf; rewrite Hp; discriminate|]. constructor; [apply word_nlf; auto|constructor].
  - split; [discriminate|]. constructor; [apply tid_nlf; rewrite Ht; discriminate|constructor].
  - split; [destruct ts; cbn in Hl; [lia|discriminate]|].
    eapply Forall_impl; [|exact Hf]. intros t [Ht _]. apply tid_nlf. rewrite Ht. discriminate.
Qed.

Lemma g_fancy_nlf tops op : g_fancy_op tops op -> Forall nlf tops.
Proof.
  destruct 1 as [|t Ht|t1 t2 op H1 H2 H3|t1 t2 t3 op H1 H2 H3 H4]; repeat constructor;
    try (apply tid_nlf; congruence); try (eapply one_of_nlf; [|eassumption]; reflexivity).
Qed.

Lemma g_comma_nlf tc : g_comma tc -> Forall nlf tc.
Proof. destruct 1 as [c Hc|c a Hc Ha]; repeat constructor; apply tid_nlf; try rewrite Hc; try rewrite Ha; discriminate. Qed.

Lemma g_argsep_nlf ts : g_argsep ts -> Forall nlf ts.
Proof.
  destruct 1 as [t Ht|c a Hc Ha]; repeat constructor.
  - eapply one_of_nlf; [|exact Ht]. reflexivity.
  - apply tid_nlf. rewrite Hc. discriminate.
  - apply tid_nlf. rewrite Ha. discriminate.
Qed.

Lemma lit_nlf t l : literal_of_token (tid t) = Some l -> nlf t.
Proof. intro H. apply tid_nlf. intro E. rewrite E in H. discriminate. Qed.

(** no token of an expression ends a line *)
Theorem g_primary_nlf : forall ts p, g_primary ts p -> Forall nlf ts.
Proof.
  apply (g_primary_mind (fun ts _ _ => Forall nlf ts) (fun ts _ _ => Forall nlf ts) (fun _ ts _ _ => Forall nlf ts)
                        (fun _ ts _ _ => Forall nlf ts) (fun ts _ _ => Forall nlf ts)); intros;
    repeat (apply Forall_app; split); repeat (apply Forall_cons); auto;
    try (apply tid_nlf; congruence);
    try (eapply g_var_nlf; eassumption);
    try (eapply lit_nlf; eassumption);
    try (eapply g_fancy_nlf; eassumption); try (eapply g_comma_nlf; eassumption); try (eapply g_argsep_nlf; eassumption).
  - eapply one_of_nlf; [|exact e]. reflexivity.
  - destruct L as [|[|[|[|[|L]]]]]; cbn [ops_at] in e; try (unfold is_one_of, ttype_in in e; cbn in e; discriminate);
      (eapply one_of_nlf; [|exact e]; reflexivity).
  - eapply one_of_nlf; [|exact e]. reflexivity.
Qed.

Lemma g_ident_nlf ts i : g_ident ts i -> ts <> [] /\ Forall nlf ts.
Proof.
  destruct 1 as [ts n Hv|t Ht]; [eapply g_var_nlf; eauto|].
  split; [discriminate|]. constructor; [apply tid_nlf; rewrite Ht; discriminate|constructor].
Qed.

Section Layout.
Variable prof : profile.
Variables buf buf' : str.

(** the raw text of a poetic string, without the state *)
Definition ptext (b : str) (says : token) (s : pstate) : pres str :=
  let* (r, _) := parse_poetic_string_rhs b says s in Ok r.

Definition same_class {A} (R : A -> A -> Prop) (r r' : pres A) : Prop :=
  match r, r' with
  | Ok a, Ok a' => R a a'
  | Err _, Err _ => True
  | Panic _, Panic _ => True
  | UB _, UB _ => True
  | OutOfFuel, OutOfFuel => True
  | OverBudget, OverBudget => True
  | _, _ => False
  end.

Definition is_says (t : token) : bool := match tid t with TSays => true | _ => false end.

Inductive tksim : list ptoken -> list ptoken -> Prop :=
  | tk_nil : tksim [] []
  | tk_cons pt pt' l l' :
      tsim (pt_tok pt) (pt_tok pt') -> tksim l l' ->
      (is_says (pt_tok pt) = true -> forall ln lc pl ln' lc' pl',
         same_class eq (ptext buf (pt_tok pt) (mkPS l ln lc pl)) (ptext buf' (pt_tok pt') (mkPS l' ln' lc' pl'))) ->
      tksim (pt :: l) (pt' :: l').

(** the two token lists being parsed, of which every parser state holds a suffix *)
Variables full full' : list ptoken.

Definition at_pos (s s' : pstate) : Prop :=
  exists pre pre', full = pre ++ toks s /\ full' = pre' ++ toks s' /\ length pre = length pre'.

Definition ssim (s s' : pstate) : Prop := tksim (toks s) (toks s') /\ plist s = plist s' /\ at_pos s s'.

Lemma ssim_retok s s' t t' : ssim s s' -> toks t = toks s -> toks t' = toks s' -> plist t = plist t' -> ssim t t'.
Proof.
  intros (Hk & Hl & Hp) E E' El. unfold ssim, at_pos. rewrite E, E'. auto.
Qed.

(** a `say` in the middle of a line: the raw text after it agrees *)
Definition line_started (pre : list ptoken) : Prop :=
  match rev pre with p :: _ => nlf (pt_tok p) | [] => False end.

Hypothesis Hsay : forall pre pt l pre' pt' l',
  full = pre ++ pt :: l -> full' = pre' ++ pt' :: l' -> length pre = length pre' ->
  tid (pt_tok pt) = TSay -> line_started pre ->
  forall ln lc pl ln' lc' pl',
    same_class eq (ptext buf (pt_tok pt) (mkPS l ln lc pl)) (ptext buf' (pt_tok pt') (mkPS l' ln' lc' pl')).

Definition rsim {A} (R : A -> A -> Prop) (r r' : pres (A * pstate)) : Prop :=
  same_class (fun x x' => R (fst x) (fst x') /\ ssim (snd x) (snd x')) r r'.

Lemma tksim_length l l' : tksim l l' -> length l = length l'.
Proof. induction 1; cbn; congruence. Qed.

Lemma rsim_bind {A B} (R : A -> A -> Prop) (Q : B -> B -> Prop) (m m' : pres (A * pstate)) (f f' : A * pstate -> pres (B * pstate)) :
  rsim R m m' -> (forall a s a' s', R a a' -> ssim s s' -> rsim Q (f (a, s)) (f' (a', s'))) ->
  rsim Q (bind m f) (bind m' f').
Proof.
  intros Hm Hf. destruct m as [[a s]| | | | |], m' as [[a' s']| | | | |]; cbn in *; try contradiction; auto.
  all: try (destruct Hm; apply Hf; auto).
Qed.

Lemma rsim_bind_eq {A B} (R : A -> A -> Prop) (Q : B -> B -> Prop) (m m' : pres (A * pstate)) (f f' : A * pstate -> pres (B * pstate)) :
  rsim R m m' -> (forall a s a' s', m = Ok (a, s) -> m' = Ok (a', s') -> R a a' -> ssim s s' -> rsim Q (f (a, s)) (f' (a', s'))) ->
  rsim Q (bind m f) (bind m' f').
Proof.
  intros Hm Hf. destruct m as [[a s]| | | | |], m' as [[a' s']| | | | |]; cbn in *; try contradiction; auto.
  all: try (destruct Hm; apply Hf; auto).
Qed.

Lemma class_bind {A B} (R : A -> A -> Prop) (Q : B -> B -> Prop) (m m' : pres A) (f f' : A -> pres (B * pstate)) :
  same_class R m m' -> (forall a a', R a a' -> rsim Q (f a) (f' a')) -> rsim Q (bind m f) (bind m' f').
Proof.
  intros Hm Hf. destruct m, m'; cbn in *; try contradiction; auto. all: try (apply Hf; auto).
Qed.

Lemma rsim_ok {A} (R : A -> A -> Prop) a a' s s' : R a a' -> ssim s s' -> rsim R (Ok (a, s)) (Ok (a', s')).
Proof. intros. split; auto. Qed.

Lemma rsim_fail {A} (R : A -> A -> Prop) s s' c c' : rsim R (fail s c) (fail s' c').
Proof. exact I. Qed.

(** * Leaves *)
Lemma current_sim s s' : ssim s s' ->
  match current s, current s' with
  | Some t, Some t' => tsim t t'
  | None, None => True
  | _, _ => False
  end.
Proof. intros [H _]. unfold current. destruct H; auto. Qed.

Lemma advance_sim s s' : ssim s s' ->
  match advance s, advance s' with
  | Some (t, s1), Some (t', s1') => tsim t t' /\ ssim s1 s1'
  | None, None => True
  | _, _ => False
  end.
Proof.
  intros (H & Hl & (pre & pre' & E & E' & Hn)). unfold advance.
  destruct H as [|pt pt' l l' Ht Hk Hs]; auto. split; auto. split; [exact Hk|]. split; [exact Hl|].
  exists (pre ++ [pt]), (pre' ++ [pt']). cbn [toks] in *. rewrite <- !app_assoc. cbn. repeat split; auto.
  rewrite !app_length. cbn. lia.
Qed.

Lemma mac_sim m s s' : resp m -> ssim s s' ->
  match match_and_consume m s, match_and_consume m s' with
  | Some (t, s1), Some (t', s1') => tsim t t' /\ ssim s1 s1'
  | None, None => True
  | _, _ => False
  end.
Proof.
  intros Hm H. unfold match_and_consume. pose proof (current_sim s s' H) as C. pose proof (advance_sim s s' H) as A.
  destruct (current s) as [t|], (current s') as [t'|]; try contradiction; auto.
  rewrite (Hm t t' C). destruct (m t'); auto.
Qed.

Lemma current_matches_sim m s s' : resp m -> ssim s s' -> current_matches m s = current_matches m s'.
Proof.
  intros Hm H. unfold current_matches. pose proof (current_sim s s' H) as C.
  destruct (current s), (current s'); try contradiction; auto.
Qed.

Lemma skip_opt_sim m s s' : resp m -> ssim s s' -> ssim (skip_opt m s) (skip_opt m s').
Proof.
  intros Hm H. unfold skip_opt. pose proof (mac_sim m s s' Hm H) as M.
  destruct (match_and_consume m s) as [[t s1]|], (match_and_consume m s') as [[t' s1']|]; try contradiction; auto.
  destruct M; auto.
Qed.

Definition Rt (t t' : token) : Prop := tsim t t'.

Lemma consume_sim m s s' : resp m -> ssim s s' -> rsim Rt (consume prof m s) (consume prof m s').
Proof.
  intros Hm H. unfold consume. pose proof (advance_sim s s' H) as A.
  destruct (advance s) as [[t s1]|], (advance s') as [[t' s1']|]; try contradiction.
  - destruct A as [At As]. rewrite (Hm t t' At). destruct (debug_assert prof 60 (m t')); cbn; auto.
  - destruct prof; exact I.
Qed.

Lemma expect_token_sim id s s' : ssim s s' -> rsim Rt (expect_token id s) (expect_token id s').
Proof.
  intro H. unfold expect_token. pose proof (mac_sim (is_id id) s s' (resp_is_id id) H) as M.
  destruct (match_and_consume (is_id id) s) as [[t s1]|], (match_and_consume (is_id id) s') as [[t' s1']|]; try contradiction.
  - destruct M. split; auto.
  - exact I.
Qed.

Lemma is_ispelled_sim text t t' : tsim t t' -> is_ispelled text t = is_ispelled text t'.
Proof. intros [_ H]. unfold is_ispelled. rewrite H. reflexivity. Qed.

Lemma expect_token_ispelled_sim text s s' : ssim s s' -> rsim Rt (expect_token_ispelled text s) (expect_token_ispelled text s').
Proof.
  intro H. unfold expect_token_ispelled. pose proof (current_sim s s' H) as C. pose proof (advance_sim s s' H) as A.
  destruct (current s) as [t|], (current s') as [t'|]; try contradiction; [|exact I].
  rewrite (is_ispelled_sim text t t' C). destruct (is_ispelled text t') as [b| | | | |]; cbn; auto.
  destruct b; [|exact I].
  destruct (advance s) as [[a s1]|], (advance s') as [[a' s1']|]; try contradiction; [|exact I].
  destruct A. split; auto.
Qed.

Definition Ropt {A} (R : A -> A -> Prop) (o o' : option A) : Prop :=
  match o, o' with Some a, Some a' => R a a' | None, None => True | _, _ => False end.

Lemma expect_token_or_end_sim id s s' : ssim s s' -> rsim (Ropt Rt) (expect_token_or_end id s) (expect_token_or_end id s').
Proof.
  intro H. unfold expect_token_or_end. pose proof (current_sim s s' H) as C. pose proof (advance_sim s s' H) as A.
  destruct (current s) as [t|], (current s') as [t'|]; try contradiction.
  - destruct C as [C1 C2]. rewrite C1. destruct (ttype_eqb (tid t') id); [|exact I].
    destruct (advance s) as [[a s1]|], (advance s') as [[a' s1']|]; try contradiction.
    + destruct A. split; auto.
    + split; [exact I|exact H].
  - split; [exact I|exact H].
Qed.

Lemma expect_eol_sim s s' : ssim s s' -> rsim (fun _ _ => True) (expect_eol s) (expect_eol s').
Proof.
  intro H. unfold expect_eol. eapply rsim_bind; [apply expect_token_or_end_sim; apply skip_opt_sim; [apply resp_is_one_of|exact H]|].
  intros a s1 a' s1' _ Hs. split; auto.
Qed.

(** consuming a token also hands over what the relation says about a poetic string starting there *)
Definition says_ok (t : token) (s : pstate) (t' : token) (s' : pstate) : Prop :=
  is_says t = true -> same_class eq (ptext buf t s) (ptext buf' t' s').

Lemma expect_any_sim ids s s' : ssim s s' ->
  match expect_any ids s, expect_any ids s' with
  | Ok (t, s1), Ok (t', s1') =>
      tsim t t' /\ ssim s1 s1' /\ says_ok t s1 t' s1' /\
      exists pre pre' pt pt', full = pre ++ pt :: toks s1 /\ full' = pre' ++ pt' :: toks s1' /\ length pre = length pre' /\
                              pt_tok pt = t /\ pt_tok pt' = t' /\ full = pre ++ toks s
  | Err _, Err _ => True
  | _, _ => False
  end.
Proof.
  intro Hss. pose proof (advance_sim s s' Hss) as A.
  destruct Hss as (H & Hl & (pre & pre' & E & E' & Hn)).
  unfold expect_any, match_and_consume, current. unfold advance in *.
  destruct H as [|pt pt' l l' Ht Hk Hs]; [exact I|].
  rewrite (resp_is_one_of ids _ _ Ht). destruct (is_one_of ids (pt_tok pt')); [|exact I].
  destruct A as [_ A]. split; auto. split; [exact A|]. split; [intro Hy; apply Hs; exact Hy|].
  exists pre, pre', pt, pt'. cbn [toks] in *. repeat split; auto.
Qed.

(** * Identifiers and literals *)
Definition Rfst {A B} (x x' : A * B) : Prop := fst x = fst x'.

Lemma parse_pronoun_sim s s' : ssim s s' ->
  match parse_pronoun s, parse_pronoun s' with
  | Some (i, r, s1), Some (i', r', s1') => i = i' /\ ssim s1 s1'
  | None, None => True
  | _, _ => False
  end.
Proof.
  intro H. unfold parse_pronoun. pose proof (mac_sim _ s s' (resp_is_id TPronoun) H) as M.
  destruct (match_and_consume (is_id TPronoun) s) as [[t s1]|], (match_and_consume (is_id TPronoun) s') as [[t' s1']|]; try contradiction; auto.
  destruct M; auto.
Qed.

Lemma parse_literal_expression_sim s s' : ssim s s' ->
  match parse_literal_expression s, parse_literal_expression s' with
  | Some (l, r, s1), Some (l', r', s1') => l = l' /\ ssim s1 s1'
  | None, None => True
  | _, _ => False
  end.
Proof.
  intro H. unfold parse_literal_expression. pose proof (current_sim s s' H) as C. pose proof (advance_sim s s' H) as A.
  destruct (current s) as [t|], (current s') as [t'|]; try contradiction; auto.
  destruct C as [C1 _]. rewrite C1. destruct (literal_of_token (tid t')); auto.
  destruct (advance s) as [[a s1]|], (advance s') as [[a' s1']|]; try contradiction; auto. destruct A; auto.
Qed.

Lemma parse_common_identifier_sim s s' : ssim s s' ->
  rsim (Ropt Rfst) (parse_common_identifier s) (parse_common_identifier s').
Proof.
  intro H. unfold parse_common_identifier. pose proof (mac_sim _ s s' (resp_is_id TCommonVariablePrefix) H) as M.
  destruct (match_and_consume (is_id TCommonVariablePrefix) s) as [[p s1]|], (match_and_consume (is_id TCommonVariablePrefix) s') as [[p' s1']|];
    try contradiction; [|split; [exact I|exact H]].
  destruct M as [[_ Mp] Ms]. pose proof (mac_sim _ s1 s1' resp_is_word Ms) as W.
  destruct (match_and_consume _ s1) as [[w s2]|], (match_and_consume _ s1') as [[w' s2']|]; try contradiction; [|exact I].
  destruct W as [[_ Ww] Ws]. split; auto. cbn. unfold Rfst. cbn. rewrite Mp, Ww. reflexivity.
Qed.

Lemma parse_simple_identifier_sim s s' : ssim s s' ->
  match parse_simple_identifier s, parse_simple_identifier s' with
  | Some (n, r, s1), Some (n', r', s1') => n = n' /\ ssim s1 s1'
  | None, None => True
  | _, _ => False
  end.
Proof.
  intro H. unfold parse_simple_identifier. pose proof (mac_sim _ s s' (resp_is_id TWord) H) as M.
  destruct (match_and_consume (is_id TWord) s) as [[t s1]|], (match_and_consume (is_id TWord) s') as [[t' s1']|]; try contradiction; auto.
  destruct M as [[_ Mt] Ms]. rewrite Mt. auto.
Qed.

Lemma is_capitalized_word_sim t t' : tsim t t' -> is_capitalized_word t = is_capitalized_word t'.
Proof. intros [H1 H2]. unfold is_capitalized_word. rewrite H1, H2. reflexivity. Qed.

Definition Rcap (x x' : list str * option range) : Prop :=
  fst x = fst x' /\ (snd x = None <-> snd x' = None).

Lemma capitalized_words_sim : forall fuel s s' names acc acc', ssim s s' -> (acc = None <-> acc' = None) ->
  rsim Rcap (capitalized_words fuel s names acc) (capitalized_words fuel s' names acc').
Proof.
  induction fuel as [|f IH]; intros s s' names acc acc' H Ha; cbn [capitalized_words]; [exact I|].
  pose proof (current_sim s s' H) as C. pose proof (advance_sim s s' H) as A.
  destruct (current s) as [t|], (current s') as [t'|]; try contradiction; [|split; [split; auto|exact H]].
  rewrite (is_capitalized_word_sim t t' C). destruct (is_capitalized_word t') as [b| | | | |]; cbn [bind]; try exact I.
  destruct b; [|split; [split; auto|exact H]].
  destruct (advance s) as [[a s1]|], (advance s') as [[a' s1']|]; try contradiction; [|split; [split; auto|exact H]].
  destruct A as [_ As]. destruct C as [_ Cs]. rewrite Cs. apply IH; auto. split; discriminate.
Qed.

Lemma parse_capitalized_identifier_sim s s' : ssim s s' ->
  rsim (Ropt Rfst) (parse_capitalized_identifier prof s) (parse_capitalized_identifier prof s').
Proof.
  intro H. unfold parse_capitalized_identifier. rewrite (tksim_length _ _ (proj1 H)).
  eapply rsim_bind; [apply capitalized_words_sim; [exact H|tauto]|].
  intros [names acc] s1 [names' acc'] s1' [Hn Ha] Hs. cbn in Hn, Ha. subst names'.
  destruct names as [|n [|n2 t]].
  - split; [exact I|exact Hs].
  - destruct acc, acc'; try (exfalso; destruct Ha as [A1 A2]; (discriminate (A1 eq_refl) || discriminate (A2 eq_refl))).
    + split; [reflexivity|exact Hs].
    + destruct prof; exact I.
  - destruct acc, acc'; try (exfalso; destruct Ha as [A1 A2]; (discriminate (A1 eq_refl) || discriminate (A2 eq_refl))).
    + split; [reflexivity|exact Hs].
    + destruct prof; exact I.
Qed.

Lemma parse_variable_name_sim s s' : ssim s s' -> rsim (Ropt Rfst) (parse_variable_name prof s) (parse_variable_name prof s').
Proof.
  intro H. unfold parse_variable_name. eapply rsim_bind; [apply parse_common_identifier_sim; exact H|].
  intros c s1 c' s1' Hc Hs. destruct c as [x|], c' as [x'|]; try contradiction; [split; auto|].
  eapply rsim_bind; [apply parse_capitalized_identifier_sim; exact Hs|].
  intros k s2 k' s2' Hk Hs2. destruct k as [x|], k' as [x'|]; try contradiction; [split; auto|].
  pose proof (parse_simple_identifier_sim s2 s2' Hs2) as P.
  destruct (parse_simple_identifier s2) as [[[n r] s3]|], (parse_simple_identifier s2') as [[[n' r'] s3']|]; try contradiction.
  - destruct P as [-> P]. split; auto. reflexivity.
  - split; [exact I|exact Hs2].
Qed.

Lemma parse_identifier_sim s s' : ssim s s' -> rsim (Ropt Rfst) (parse_identifier prof s) (parse_identifier prof s').
Proof.
  intro H. unfold parse_identifier. eapply rsim_bind; [apply parse_variable_name_sim; exact H|].
  intros v s1 v' s1' Hv Hs. destruct v as [[n r]|], v' as [[n' r']|]; try contradiction.
  - unfold Rfst in Hv. cbn in Hv. subst n'. split; auto. reflexivity.
  - pose proof (parse_pronoun_sim s1 s1' Hs) as P.
    destruct (parse_pronoun s1) as [[[i r] s2]|], (parse_pronoun s1') as [[[i' r'] s2']|]; try contradiction.
    + destruct P as [-> P]. split; auto. reflexivity.
    + split; [exact I|exact Hs].
Qed.

Lemma expect_identifier_sim s s' : ssim s s' -> rsim Rfst (expect_identifier prof s) (expect_identifier prof s').
Proof.
  intro H. unfold expect_identifier.
  pose proof (parse_identifier_sim s s' H) as P.
  destruct (parse_identifier prof s) as [[i s1]| | | | |], (parse_identifier prof s') as [[i' s1']| | | | |]; cbn in *; try contradiction; auto.
  destruct P as [Pi Ps]. destruct i as [[x r]|], i' as [[x' r']|]; try contradiction; [|exact I].
  split; auto.
Qed.

Lemma expect_variable_name_sim s s' : ssim s s' -> rsim Rfst (expect_variable_name prof s) (expect_variable_name prof s').
Proof.
  intro H. unfold expect_variable_name.
  pose proof (parse_variable_name_sim s s' H) as P.
  destruct (parse_variable_name prof s) as [[i s1]| | | | |], (parse_variable_name prof s') as [[i' s1']| | | | |]; cbn in *; try contradiction; auto.
  destruct P as [Pi Ps]. destruct i as [[x r]|], i' as [[x' r']|]; try contradiction; [|exact I].
  split; auto.
Qed.

Lemma as_variable_name_sim s s' i r r' : same_class Rfst (as_variable_name s i r) (as_variable_name s' i r').
Proof. destruct i; cbn; [reflexivity|exact I]. Qed.

Definition Rp (p p' : primary) : Prop := er_p p = er_p p'.
Definition Re (e e' : expr) : Prop := er_e e = er_e e'.
Definition Rl (l l' : list expr) : Prop := map er_e l = map er_e l'.
Definition Rlhs (l l' : lhs) : Prop := er_lhs l = er_lhs l'.

Lemma lhs_of_primary_sim p p' : Rp p p' -> same_class Rlhs (lhs_of_primary p) (lhs_of_primary p').
Proof.
  unfold Rp. intro H. destruct p, p'; cbn in *; try discriminate; auto; unfold Rlhs; cbn; congruence.
Qed.

(** * Poetic literals *)
Lemma poetic_elems_sim : forall fuel s s' acc, ssim s s' -> rsim eq (poetic_elems fuel s acc) (poetic_elems fuel s' acc).
Proof.
  induction fuel as [|f IH]; intros s s' acc H; cbn [poetic_elems]; [exact I|].
  pose proof (mac_sim _ s s' resp_poetic_token H) as M.
  destruct (match_and_consume _ s) as [[t s1]|], (match_and_consume _ s') as [[t' s1']|]; try contradiction; [|split; auto].
  destruct M as [Mt Ms]. pose proof Mt as [Mt1 Mt2]. rewrite Mt1, Mt2, (resp_minus_hyphen t t' Mt).
  assert (Hdef : rsim eq
     (if is_minus_hyphen t'
      then match advance s1 with
           | Some (nt, s2) => if is_word (tspell nt) then poetic_elems f s2 (acc ++ [PESuffix (lit "-" ++ tspell nt)]) else Err (mkPE PUnexpectedToken (PLTok nt))
           | None => fail s1 PPoeticLiteralEndingWithHyphen
           end
      else poetic_elems f s1 (acc ++ [PEWord (tspell t')]))
     (if is_minus_hyphen t'
      then match advance s1' with
           | Some (nt, s2) => if is_word (tspell nt) then poetic_elems f s2 (acc ++ [PESuffix (lit "-" ++ tspell nt)]) else Err (mkPE PUnexpectedToken (PLTok nt))
           | None => fail s1' PPoeticLiteralEndingWithHyphen
           end
      else poetic_elems f s1' (acc ++ [PEWord (tspell t')]))).
  { destruct (is_minus_hyphen t'); [|apply IH; exact Ms].
    pose proof (advance_sim s1 s1' Ms) as A.
    destruct (advance s1) as [[nt s2]|], (advance s1') as [[nt' s2']|]; try contradiction; [|exact I].
    destruct A as [[_ An] As]. rewrite An. destruct (is_word (tspell nt')); [apply IH; exact As|exact I]. }
  destruct (tid t'); try exact Hdef; apply IH; exact Ms.
Qed.

Lemma parse_poetic_number_literal_sim s s' : ssim s s' -> rsim eq (parse_poetic_number_literal s) (parse_poetic_number_literal s').
Proof.
  intro H. unfold parse_poetic_number_literal. rewrite (current_matches_sim _ s s' resp_minus_hyphen H).
  destruct (current_matches is_minus_hyphen s'); [exact I|]. rewrite (tksim_length _ _ (proj1 H)).
  eapply rsim_bind; [apply poetic_elems_sim; exact H|].
  intros el s1 el' s1' -> Hs. destruct el'; [exact I|]. split; auto.
Qed.

Lemma is_current_negative_number_sim s s' : ssim s s' -> same_class eq (is_current_negative_number prof s) (is_current_negative_number prof s').
Proof.
  intros [H _]. unfold is_current_negative_number. destruct H as [|pt pt' l l' Ht Hk _]; [destruct prof; exact I|].
  cbn. rewrite (resp_minus_hyphen _ _ Ht). f_equal. destruct Hk as [|pt2 pt2' l2 l2' [Ht2 _] _ _]; [reflexivity|]. rewrite Ht2. reflexivity.
Qed.

Lemma drop_until_newline_sim : forall fuel s s', ssim s s' -> ssim (drop_until_newline s fuel) (drop_until_newline s' fuel).
Proof.
  induction fuel as [|f IH]; intros s s' H; cbn [drop_until_newline]; auto.
  pose proof (current_sim s s' H) as C. pose proof (advance_sim s s' H) as A.
  destruct (current s) as [t|], (current s') as [t'|]; try contradiction; auto.
  destruct C as [C1 _]. rewrite C1.
  destruct (tid t'); auto;
    destruct (advance s) as [[a s1]|], (advance s') as [[a' s1']|]; try contradiction; auto; destruct A; apply IH; auto.
Qed.

Lemma pps_split b says s :
  parse_poetic_string_rhs b says s = (let* r := ptext b says s in Ok (r, drop_until_newline s (length (toks s)))).
Proof.
  unfold ptext, parse_poetic_string_rhs.
  match goal with |- match ?x with _ => _ end = _ => destruct x end; cbn [bind]; [|reflexivity].
  destruct (strip_prefix (tspell says) s0); cbn [bind]; [|reflexivity].
  destruct (strip_prefix (lit " ") s1); reflexivity.
Qed.

Lemma parse_poetic_string_rhs_sim says s says' s' :
  same_class eq (ptext buf says s) (ptext buf' says' s') -> ssim s s' ->
  rsim eq (parse_poetic_string_rhs buf says s) (parse_poetic_string_rhs buf' says' s').
Proof.
  intros Hk H. rewrite !pps_split. eapply class_bind; [exact Hk|].
  intros a a' ->. split; [reflexivity|]. cbn. rewrite (tksim_length _ _ (proj1 H)). apply drop_until_newline_sim. exact H.
Qed.

(** * Combinators *)
Section Comb.
  Variables next next' : P expr.
  Hypothesis Hnext : forall s s', ssim s s' -> rsim Re (next s) (next' s').

  Lemma Rl_app l l' e e' : Rl l l' -> Re e e' -> Rl (l ++ [e]) (l' ++ [e']).
  Proof. unfold Rl, Re. intros H1 H2. rewrite !map_app. cbn. congruence. Qed.

  Lemma list_tail_sim : forall fuel s s' acc acc', ssim s s' -> Rl acc acc' ->
    rsim Rl (list_tail next fuel s acc) (list_tail next' fuel s' acc').
  Proof.
    induction fuel as [|f IH]; intros s s' acc acc' H Ha; cbn [list_tail]; [exact I|].
    pose proof (mac_sim _ s s' (resp_is_id TComma) H) as M.
    destruct (match_and_consume _ s) as [[t s1]|], (match_and_consume _ s') as [[t' s1']|]; try contradiction; [|split; auto].
    destruct M as [_ Ms]. eapply rsim_bind; [apply Hnext; apply skip_opt_sim; [apply resp_is_id|exact Ms]|].
    intros e s3 e' s3' He Hs. apply IH; auto. apply Rl_app; auto.
  Qed.

  Definition Rel (x x' : expr * list expr) : Prop := Re (fst x) (fst x') /\ Rl (snd x) (snd x').

  Lemma parse_expression_list_sim fuel s s' : ssim s s' ->
    rsim Rel (parse_expression_list next fuel s) (parse_expression_list next' fuel s').
  Proof.
    intro H. unfold parse_expression_list. eapply rsim_bind; [apply Hnext; exact H|].
    intros first s1 first' s1' Hf Hs. pose proof Hs as (Hk & Hl & Hp). rewrite Hl.
    destruct (plist s1').
    - split; [split; [exact Hf|reflexivity]|]. cbn [snd]. eapply ssim_retok; [exact Hs| | |]; reflexivity.
    - eapply rsim_bind; [apply list_tail_sim; [eapply ssim_retok; [exact Hs| | |]; reflexivity|reflexivity]|].
      intros r s3 r' s3' Hr Hs3. split; [split; auto|]. cbn [snd]. eapply ssim_retok; [exact Hs3| | |]; reflexivity.
  Qed.

  Lemma binary_loop_sim ops : forall fuel e e' s s', Re e e' -> ssim s s' ->
    rsim Re (binary_loop next ops fuel e s) (binary_loop next' ops fuel e' s').
  Proof.
    induction fuel as [|f IH]; intros e e' s s' He H; cbn [binary_loop]; [exact I|].
    pose proof (mac_sim _ s s' (resp_is_one_of ops) H) as M.
    destruct (match_and_consume _ s) as [[t s1]|], (match_and_consume _ s') as [[t' s1']|]; try contradiction; [|split; auto].
    destruct M as [[Mt _] Ms]. rewrite Mt. destruct (get_binary_operator (tid t')) as [op|]; cbn [unwrap_op bind]; [|exact I].
    eapply rsim_bind; [apply parse_expression_list_sim; exact Ms|].
    intros [first rest_] s2 [first' rest_'] s2' [Hf Hr] Hs. cbn in Hf, Hr. apply IH; auto.
    unfold Re in *. unfold Rl in Hr. cbn. congruence.
  Qed.

  Lemma parse_binary_expression_sim ops fuel s s' : ssim s s' ->
    rsim Re (parse_binary_expression next ops fuel s) (parse_binary_expression next' ops fuel s').
  Proof.
    intro H. unfold parse_binary_expression. eapply rsim_bind; [apply Hnext; exact H|].
    intros e s1 e' s1' He Hs. apply binary_loop_sim; auto.
  Qed.
End Comb.

Section Params.
  Context {X : Type} (RX : X -> X -> Prop).
  Variables p p' : P X.
  Hypothesis Hp : forall s s', ssim s s' -> rsim RX (p s) (p' s').

  Lemma param_tail_sim : forall fuel s s' acc acc', ssim s s' -> Forall2 RX acc acc' ->
    rsim (Forall2 RX) (param_tail p fuel s acc) (param_tail p' fuel s' acc').
  Proof.
    induction fuel as [|f IH]; intros s s' acc acc' H Ha; cbn [param_tail]; [exact I|].
    pose proof (mac_sim _ s s' (resp_is_one_of param_seps) H) as M.
    destruct (match_and_consume _ s) as [[t s1]|], (match_and_consume _ s') as [[t' s1']|]; try contradiction; [|split; auto].
    destruct M as [[Mt _] Ms]. rewrite Mt.
    eapply rsim_bind.
    - apply Hp. destruct (tid t'); try exact Ms. apply skip_opt_sim; [apply resp_is_id|exact Ms].
    - intros x s3 x' s3' Hx Hs. apply IH; auto. apply Forall2_app; auto.
  Qed.

  Lemma parse_parameter_list_sim fuel s s' : ssim s s' ->
    rsim (Forall2 RX) (parse_parameter_list p fuel s) (parse_parameter_list p' fuel s').
  Proof.
    intro H. unfold parse_parameter_list. eapply rsim_bind; [apply Hp; exact H|].
    intros x s1 x' s1' Hx Hs. apply param_tail_sim; auto.
  Qed.
End Params.

Lemma fancy_operator_sim s s' : ssim s s' -> rsim eq (fancy_operator s) (fancy_operator s').
Proof.
  intro H. unfold fancy_operator.
  pose proof (mac_sim _ s s' (resp_is_id TAs) H) as M.
  destruct (match_and_consume (is_id TAs) s) as [[t s1]|], (match_and_consume (is_id TAs) s') as [[t' s1']|]; try contradiction.
  - destruct M as [_ Ms]. pose proof (expect_any_sim [TBig; TSmall] s1 s1' Ms) as E.
    destruct (expect_any [TBig; TSmall] s1) as [[a s2]| | | | |], (expect_any [TBig; TSmall] s1') as [[a' s2']| | | | |]; try contradiction; cbn [bind]; auto.
    destruct E as ([Ea _] & Es & _). rewrite Ea. destruct (get_binary_operator (tid a')); cbn [unwrap_op bind]; [|exact I].
    eapply rsim_bind; [apply expect_token_sim; exact Es|]. intros x s3 x' s3' _ Hs. split; auto.
  - pose proof (mac_sim _ s s' (resp_is_one_of [TBigger; TSmaller]) H) as M2.
    destruct (match_and_consume (is_one_of [TBigger; TSmaller]) s) as [[t s1]|], (match_and_consume (is_one_of [TBigger; TSmaller]) s') as [[t' s1']|]; try contradiction.
    + destruct M2 as [[Mt _] Ms]. rewrite Mt. destruct (get_binary_operator (tid t')); cbn [unwrap_op bind]; [|exact I].
      eapply rsim_bind; [apply expect_token_sim; exact Ms|]. intros x s3 x' s3' _ Hs. split; auto.
    + pose proof (mac_sim _ s s' (resp_is_id TNot) H) as M3.
      destruct (match_and_consume (is_id TNot) s) as [[t s1]|], (match_and_consume (is_id TNot) s') as [[t' s1']|]; try contradiction.
      * destruct M3. split; auto.
      * split; auto.
Qed.

(** * Expressions *)
Lemma Forall2_Re_Rl l l' : Forall2 Re l l' -> Rl l l'.
Proof. unfold Rl. induction 1; cbn; [reflexivity|]. unfold Re in H. congruence. Qed.

Record EL (f : nat) : Prop := mkEL {
  el_expr : forall s s', ssim s s' -> rsim Re (parse_expression prof f s) (parse_expression prof f s');
  el_cmp : forall s s', ssim s s' -> rsim Re (parse_comparison prof f s) (parse_comparison prof f s');
  el_fancy : forall l l' s s', Re l l' -> ssim s s' -> rsim Re (parse_fancy prof f l s) (parse_fancy prof f l' s');
  el_floop : forall e e' s s', Re e e' -> ssim s s' -> rsim Re (fancy_loop prof f e s) (fancy_loop prof f e' s');
  el_term : forall s s', ssim s s' -> rsim Re (parse_term prof f s) (parse_term prof f s');
  el_factor : forall s s', ssim s s' -> rsim Re (parse_factor prof f s) (parse_factor prof f s');
  el_unary : forall s s', ssim s s' -> rsim Re (parse_unary prof f s) (parse_unary prof f s');
  el_primary : forall s s', ssim s s' -> rsim Rp (parse_primary prof f s) (parse_primary prof f s');
  el_nsp : forall s s', ssim s s' -> rsim Rp (parse_non_subscript_primary prof f s) (parse_non_subscript_primary prof f s');
  el_sub : forall e e' s s', Rp e e' -> ssim s s' -> rsim Rp (subscript_after prof f e s) (subscript_after prof f e' s');
  el_ioc : forall s s', ssim s s' -> rsim (Ropt Rp) (parse_identifier_or_call prof f s) (parse_identifier_or_call prof f s');
  el_args : forall s s', ssim s s' -> rsim Rl (parse_function_call_args prof f s) (parse_function_call_args prof f s')
}.

Lemma EL_0 : EL 0.
Proof. constructor; intros; exact I. Qed.

Lemma EL_S f : EL f -> EL (S f).
Proof.
  intros [Hexpr Hcmp Hfancy Hfloop Hterm Hfactor Hunary Hprimary Hnsp Hsub Hioc Hargs].
  constructor.
  - intros s s' H. simpl. apply parse_binary_expression_sim; auto.
  - intros s s' H. simpl. eapply rsim_bind; [apply Hterm; exact H|]. intros e s1 e' s1' He Hs.
    pose proof (mac_sim _ s1 s1' (resp_is_one_of is_ops) Hs) as M.
    destruct (match_and_consume _ s1) as [[t s2]|], (match_and_consume _ s1') as [[t' s2']|]; try contradiction.
    + destruct M as [_ Ms]. eapply rsim_bind; [apply Hfancy; auto|]. intros e2 s3 e2' s3' He2 Hs3. apply Hfloop; auto.
    + apply binary_loop_sim; auto.
  - intros l l' s s' Hl H. simpl. eapply rsim_bind; [apply fancy_operator_sim; exact H|].
    intros op s1 op' s1' -> Hs. eapply rsim_bind; [apply Hterm; exact Hs|].
    intros r s2 r' s2' Hr Hs2. split; auto. unfold Re in *. cbn. congruence.
  - intros e e' s s' He H. simpl.
    pose proof (mac_sim _ s s' (resp_is_one_of is_ops) H) as M.
    destruct (match_and_consume _ s) as [[t s1]|], (match_and_consume _ s') as [[t' s1']|]; try contradiction; [|split; auto].
    destruct M as [_ Ms]. eapply rsim_bind; [apply Hfancy; auto|]. intros e2 s2 e2' s2' He2 Hs2. apply Hfloop; auto.
  - intros s s' H. simpl. apply parse_binary_expression_sim; auto.
  - intros s s' H. simpl. apply parse_binary_expression_sim; auto.
  - intros s s' H. simpl.
    pose proof (mac_sim _ s s' (resp_is_one_of [TMinus; TNot]) H) as M.
    destruct (match_and_consume _ s) as [[t s1]|], (match_and_consume _ s') as [[t' s1']|]; try contradiction.
    + destruct M as [[Mt _] Ms]. rewrite Mt. destruct (get_unary_operator (tid t')); cbn [unwrap_op bind]; [|exact I].
      eapply rsim_bind; [apply Hunary; exact Ms|]. intros e s2 e' s2' He Hs. split; auto. unfold Re in *. cbn. congruence.
    + eapply rsim_bind; [apply Hprimary; exact H|]. intros p s1 p' s1' Hp Hs. split; auto. unfold Re, Rp in *. cbn. congruence.
  - intros s s' H. simpl. eapply rsim_bind; [apply Hnsp; exact H|]. intros p s1 p' s1' Hp Hs. apply Hsub; auto.
  - intros s s' H. simpl. eapply rsim_bind; [apply Hioc; exact H|]. intros io s1 io' s1' Hio Hs.
    destruct io as [p|], io' as [p'|]; try contradiction; [split; auto|].
    pose proof (parse_literal_expression_sim s1 s1' Hs) as L.
    destruct (parse_literal_expression s1) as [[[l r] s2]|], (parse_literal_expression s1') as [[[l' r'] s2']|]; try contradiction.
    + destruct L as [-> L]. split; auto. reflexivity.
    + pose proof (mac_sim _ s1 s1' (resp_is_id TRoll) Hs) as M.
      destruct (match_and_consume _ s1) as [[t s2]|], (match_and_consume _ s1') as [[t' s2']|]; try contradiction; [|exact I].
      destruct M as [_ Ms]. eapply rsim_bind; [apply Hprimary; exact Ms|]. intros p s3 p' s3' Hp Hs3. split; auto.
      unfold Rp in *. cbn. congruence.
  - intros e e' s s' He H. simpl.
    pose proof (mac_sim _ s s' (resp_is_id TAt) H) as M.
    destruct (match_and_consume _ s) as [[t s1]|], (match_and_consume _ s') as [[t' s1']|]; try contradiction; [|split; auto].
    destruct M as [_ Ms]. eapply rsim_bind; [apply Hnsp; exact Ms|]. intros x s2 x' s2' Hx Hs2. apply Hsub; auto.
    unfold Rp in *. cbn. congruence.
  - intros s s' H. simpl.
    pose proof (parse_pronoun_sim s s' H) as Pn.
    destruct (parse_pronoun s) as [[[i r] s1]|], (parse_pronoun s') as [[[i' r'] s1']|]; try contradiction.
    + destruct Pn as [-> Pn]. split; auto. reflexivity.
    + eapply rsim_bind; [apply parse_variable_name_sim; exact H|]. intros v s1 v' s1' Hv Hs.
      destruct v as [[n r]|], v' as [[n' r']|]; try contradiction; [|split; auto; exact I].
      unfold Rfst in Hv. cbn in Hv. subst n'.
      rewrite (current_matches_sim _ s1 s1' (resp_is_id TTaking) Hs). destruct (current_matches (is_id TTaking) s1').
      * eapply rsim_bind; [apply Hargs; exact Hs|]. intros a s2 a' s2' Ha Hs2. split; auto. cbn. unfold Rp, Rl in *. cbn. congruence.
      * split; auto. reflexivity.
  - intros s s' H. simpl. eapply rsim_bind; [apply consume_sim; [apply resp_is_id|exact H]|].
    intros t s1 t' s1' _ Hs.
    pose proof (parse_parameter_list_sim Re (parse_unary prof f) (parse_unary prof f) Hunary f s1 s1' Hs) as G.
    destruct (parse_parameter_list (parse_unary prof f) f s1) as [[a s2]| | | | |], (parse_parameter_list (parse_unary prof f) f s1') as [[a' s2']| | | | |];
      cbn in *; try contradiction; auto.
    destruct G. split; auto. apply Forall2_Re_Rl; auto.
Qed.

Theorem EL_all f : EL f.
Proof. induction f; [apply EL_0|apply EL_S; auto]. Qed.

(** * Where a state stands in its line *)
Definition started (s : pstate) : Prop := forall pre, full = pre ++ toks s -> line_started pre.

Lemma suffix_split {X} : forall (pre pre1 a b : list X), pre ++ a = pre1 ++ b -> (length b <= length a)%nat ->
  exists mid, a = mid ++ b /\ pre1 = pre ++ mid.
Proof.
  induction pre as [|x pre IH]; intros pre1 a b H L; cbn in *.
  - exists pre1. auto.
  - destruct pre1 as [|y pre1]; cbn in *.
    + exfalso. subst b. cbn in L. rewrite app_length in L. lia.
    + injection H as -> H. destruct (IH _ _ _ H L) as (mid & E1 & E2). exists mid. subst. auto.
Qed.

Lemma line_started_app pre mid : Forall nlf (map pt_tok mid) -> (mid <> [] \/ line_started pre) -> line_started (pre ++ mid).
Proof.
  intros Hf Hor. unfold line_started. rewrite rev_app_distr.
  destruct (rev mid) as [|p r] eqn:E.
  - cbn. assert (mid = []) by (apply (f_equal (@rev _)) in E; rewrite rev_involutive in E; exact E).
    destruct Hor as [Hne|Hs]; [contradiction|exact Hs].
  - cbn. assert (Hin : In p mid) by (apply in_rev; rewrite E; left; reflexivity).
    rewrite Forall_forall in Hf. apply Hf. apply in_map. exact Hin.
Qed.

(** a parser step that consumed the tokens [ts] *)
Lemma started_step s s1 ts : ptoks s = ts ++ ptoks s1 -> (exists pre, full = pre ++ toks s) -> (exists pre1, full = pre1 ++ toks s1) ->
  Forall nlf ts -> (ts <> [] \/ started s) -> started s1.
Proof.
  intros Hp (pre & E) (pre1 & E1) Hf Hor pre1' E1'.
  assert (pre1' = pre1) by (rewrite E1 in E1'; apply app_inv_tail in E1'; auto). subst pre1'.
  unfold ptoks in Hp.
  assert (L : (length (toks s1) <= length (toks s))%nat).
  { apply (f_equal (@length _)) in Hp. rewrite app_length, !map_length in Hp. lia. }
  rewrite E in E1. destruct (suffix_split _ _ _ _ E1 L) as (mid & Em & ->).
  rewrite Em, map_app in Hp. apply app_inv_tail in Hp. subst ts.
  apply line_started_app; auto. destruct Hor as [Hne|Hs]; [left; intro; subst; apply Hne; reflexivity|right; apply Hs; exact E].
Qed.

Lemma ssim_pos s s' : ssim s s' -> exists pre, full = pre ++ toks s.
Proof. intros (_ & _ & (pre & pre' & E & _)). eauto. Qed.

(** * Simple statements *)
Definition Rs (x x' : stmt) : Prop := er_s x = er_s x'.
Definition Rb (x x' : block) : Prop := er_b x = er_b x'.
Definition Rss (l l' : list stmt) : Prop := map er_s l = map er_s l'.

Ltac fin := split; [|assumption]; unfold Rs, Rb, Rss, Re, Rp, Rl, Rlhs, Rfst in *; cbn in *; try congruence.

Lemma parse_assignment_lhs_with_sim f i r r' s s' : ssim s s' ->
  rsim Rlhs (parse_assignment_lhs_with prof f i r s) (parse_assignment_lhs_with prof f i r' s').
Proof.
  intro H. unfold parse_assignment_lhs_with.
  eapply rsim_bind; [apply (el_sub f (EL_all f)); [reflexivity|exact H]|].
  intros p s1 p' s1' Hp Hs. eapply class_bind; [apply lhs_of_primary_sim; exact Hp|].
  intros l l' Hl. split; auto.
Qed.

Lemma parse_assignment_lhs_sim f s s' : ssim s s' -> rsim Rlhs (parse_assignment_lhs prof f s) (parse_assignment_lhs prof f s').
Proof.
  intro H. unfold parse_assignment_lhs.
  pose proof (expect_identifier_sim s s' H) as E.
  destruct (expect_identifier prof s) as [[[i r] s1]| | | | |], (expect_identifier prof s') as [[[i' r'] s1']| | | | |]; cbn in *; try contradiction; auto.
  destruct E as [Ei Es]. unfold Rfst in Ei. cbn in Ei. subst i'. apply parse_assignment_lhs_with_sim; auto.
Qed.

Lemma toplevel_list_sim f s s' : ssim s s' ->
  rsim Rel (parse_toplevel_expression_list prof f s) (parse_toplevel_expression_list prof f s').
Proof. intro H. unfold parse_toplevel_expression_list. apply parse_expression_list_sim; auto. apply (el_expr f (EL_all f)). Qed.

Lemma parse_put_assignment_sim f s s' : ssim s s' -> rsim Rs (parse_put_assignment prof f s) (parse_put_assignment prof f s').
Proof.
  intro H. unfold parse_put_assignment.
  eapply rsim_bind; [apply consume_sim; [apply resp_is_id|exact H]|]. intros t s1 t' s1' _ H1.
  eapply rsim_bind; [apply (el_expr f (EL_all f)); exact H1|]. intros v s2 v' s2' Hv H2.
  eapply rsim_bind; [apply expect_token_sim; exact H2|]. intros x s3 x' s3' _ H3.
  eapply rsim_bind; [apply parse_assignment_lhs_sim; exact H3|]. intros d s4 d' s4' Hd H4. fin.
Qed.

Lemma parse_let_assignment_sim f s s' : ssim s s' -> rsim Rs (parse_let_assignment prof f s) (parse_let_assignment prof f s').
Proof.
  intro H. unfold parse_let_assignment.
  eapply rsim_bind; [apply consume_sim; [apply resp_is_id|exact H]|]. intros t s1 t' s1' _ H1.
  eapply rsim_bind; [apply parse_assignment_lhs_sim; exact H1|]. intros d s2 d' s2' Hd H2.
  eapply rsim_bind; [apply expect_token_sim; exact H2|]. intros x s3 x' s3' _ H3.
  eapply (rsim_bind (@eq (option binop))).
  - pose proof (mac_sim _ s3 s3' (resp_is_one_of [TPlus; TWith; TMinus; TMultiply; TDivide]) H3) as M.
    destruct (match_and_consume _ s3) as [[o s4]|], (match_and_consume _ s3') as [[o' s4']|]; try contradiction; [|split; auto].
    destruct M as [[Mo _] Ms]. rewrite Mo. destruct (get_binary_operator (tid o')); cbn [unwrap_op bind]; [|exact I]. split; auto.
  - intros op s4 op' s4' -> H4. eapply rsim_bind; [apply toplevel_list_sim; exact H4|].
    intros [first rest_] s5 [first' rest_'] s5' [Hf Hr] H5. fin.
Qed.

Definition Rpn (x x' : pn_rhs) : Prop :=
  match x, x' with PNExpr e, PNExpr e' => Re e e' | PNLit l, PNLit l' => l = l' | _, _ => False end.

Lemma parse_poetic_number_rhs_sim f s s' : ssim s s' -> rsim Rpn (parse_poetic_number_rhs prof f s) (parse_poetic_number_rhs prof f s').
Proof.
  intro H. unfold parse_poetic_number_rhs. pose proof (current_sim s s' H) as C.
  destruct (current s) as [t|], (current s') as [t'|]; try contradiction; [|exact I].
  destruct C as [C1 _]. rewrite C1.
  eapply (class_bind (@eq bool)).
  - destruct (is_literal_word (tid t')); [reflexivity|]. apply is_current_negative_number_sim; exact H.
  - intros neg neg' ->. destruct neg'.
    + eapply rsim_bind; [apply (el_expr f (EL_all f)); exact H|]. intros e s1 e' s1' He Hs. split; auto.
    + eapply rsim_bind; [apply parse_poetic_number_literal_sim; exact H|]. intros el s1 el' s1' -> Hs. split; auto. reflexivity.
Qed.

Lemma parse_poetic_assignment_sim f i r r' s s' : ssim s s' -> started s -> (exists ti, g_ident ti i) ->
  rsim Rs (parse_poetic_assignment prof buf f i r s) (parse_poetic_assignment prof buf' f i r' s').
Proof.
  intros H Hst [ti Gi]. unfold parse_poetic_assignment.
  eapply rsim_bind_eq; [apply parse_assignment_lhs_with_sim; exact H|]. intros d s1 d' s1' E1 E1' Hd H1.
  assert (Hst1 : started s1).
  { destruct (lhs_with_sound prof f i r s d s1 E1) as (ts & Hp & G).
    eapply started_step; [exact Hp|eapply ssim_pos; exact H|eapply ssim_pos; exact H1| |right; exact Hst].
    (* the tokens of the subscripts are tokens of an expression *)
    specialize (G ti Gi). unfold g_lhs in G. apply g_primary_nlf in G. apply Forall_app in G. exact (proj2 G). }
  pose proof (expect_any_sim [TIs; TApostropheS; TApostropheRE; TSays; TSay] s1 s1' H1) as E.
  destruct (expect_any _ s1) as [[t s2]| | | | |], (expect_any _ s1') as [[t' s2']| | | | |]; try contradiction; cbn [bind]; auto.
  destruct E as ([Et _] & H2 & Hk & (pre & pre' & pt & pt' & Ef & Ef' & Hn & Ept & Ept' & Epre)). rewrite Et.
  assert (Hstr : same_class eq (ptext buf t s2) (ptext buf' t' s2') ->
                 rsim Rs (let* (txt, s3) := parse_poetic_string_rhs buf t s2 in Ok (SPoeticStr d txt, s3))
                         (let* (txt, s3) := parse_poetic_string_rhs buf' t' s2' in Ok (SPoeticStr d' txt, s3))).
  { intro Hc. eapply rsim_bind; [apply parse_poetic_string_rhs_sim; auto|]. intros x s3 x' s3' -> H3. fin. }
  assert (Hnum : rsim Rs (let* (rhs, s3) := parse_poetic_number_rhs prof f s2 in Ok (SPoeticNum d rhs, s3))
                         (let* (rhs, s3) := parse_poetic_number_rhs prof f s2' in Ok (SPoeticNum d' rhs, s3))).
  { eapply rsim_bind; [apply parse_poetic_number_rhs_sim; auto|]. intros x s3 x' s3' Hx H3.
    destruct x, x'; cbn in Hx; try contradiction; fin. }
  destruct (tid t') eqn:Et'; try exact Hnum; apply Hstr.
  - (* says *) apply Hk. unfold is_says. rewrite Et. reflexivity.
  - (* say in the middle of a line *)
    destruct s2 as [l2 ln2 lc2 pl2], s2' as [l2' ln2' lc2' pl2']. cbn [toks] in *.
    subst t t'. eapply Hsay; eauto.
Qed.

Lemma count_suffix_sim suffix : forall fuel s s' c, ssim s s' ->
  fst (count_suffix fuel suffix s c) = fst (count_suffix fuel suffix s' c) /\
  ssim (snd (count_suffix fuel suffix s c)) (snd (count_suffix fuel suffix s' c)).
Proof.
  induction fuel as [|f IH]; intros s s' c H; cbn [count_suffix]; [split; auto|].
  pose proof (mac_sim _ s s' (resp_is_id suffix) H) as M.
  destruct (match_and_consume _ s) as [[t s1]|], (match_and_consume _ s') as [[t' s1']|]; try contradiction; [|split; auto].
  destruct M as [_ Ms]. apply IH. apply skip_opt_sim; [apply resp_is_id|exact Ms].
Qed.

Definition Rbk (x x' : ident * range * Z) : Prop := fst (fst x) = fst (fst x') /\ snd x = snd x'.

Lemma parse_build_knock_sim b suffix s s' : ssim s s' -> rsim Rbk (parse_build_knock prof b suffix s) (parse_build_knock prof b suffix s').
Proof.
  intro H. unfold parse_build_knock.
  eapply rsim_bind; [apply consume_sim; [apply resp_is_id|exact H]|]. intros t s1 t' s1' _ H1.
  pose proof (expect_identifier_sim s1 s1' H1) as E.
  destruct (expect_identifier prof s1) as [[[i r] s2]| | | | |], (expect_identifier prof s1') as [[[i' r'] s2']| | | | |]; cbn in *; try contradiction; auto.
  destruct E as [Ei H2]. unfold Rfst in Ei. cbn in Ei. subst i'.
  eapply rsim_bind; [apply expect_token_sim; exact H2|]. intros x s3 x' s3' _ H3.
  assert (H4 : ssim (skip_opt (is_id TComma) s3) (skip_opt (is_id TComma) s3')) by (apply skip_opt_sim; [apply resp_is_id|exact H3]).
  rewrite (tksim_length _ _ (proj1 H4)).
  pose proof (count_suffix_sim suffix (length (toks (skip_opt (is_id TComma) s3'))) _ _ 0%Z H4) as [C1 C2].
  destruct (count_suffix _ suffix (skip_opt (is_id TComma) s3) 0%Z) as [extra s5], (count_suffix _ suffix (skip_opt (is_id TComma) s3') 0%Z) as [extra' s5'].
  cbn in C1, C2. subst extra'. split; auto. split; reflexivity.
Qed.

Lemma parse_say_sim f s s' : ssim s s' -> rsim Rs (parse_say prof f s) (parse_say prof f s').
Proof.
  intro H. unfold parse_say.
  eapply rsim_bind; [apply consume_sim; [apply resp_is_one_of|exact H]|]. intros t s1 t' s1' _ H1.
  eapply rsim_bind; [apply (el_expr f (EL_all f)); exact H1|]. intros e s2 e' s2' He H2. fin.
Qed.

Lemma parse_listen_sim f s s' : ssim s s' -> rsim Rs (parse_listen prof f s) (parse_listen prof f s').
Proof.
  intro H. unfold parse_listen.
  eapply rsim_bind; [apply consume_sim; [apply resp_is_id|exact H]|]. intros t s1 t' s1' _ H1.
  pose proof (mac_sim _ s1 s1' (resp_is_id TTo) H1) as M.
  destruct (match_and_consume _ s1) as [[x s2]|], (match_and_consume _ s1') as [[x' s2']|]; try contradiction.
  - destruct M as [_ H2]. eapply rsim_bind; [apply parse_assignment_lhs_sim; exact H2|]. intros d s3 d' s3' Hd H3. fin.
  - split; auto. reflexivity.
Qed.

Lemma opt_lhs_after_sim f id s s' : ssim s s' -> rsim (Ropt Rlhs) (opt_lhs_after prof f id s) (opt_lhs_after prof f id s').
Proof.
  intro H. unfold opt_lhs_after. pose proof (mac_sim _ s s' (resp_is_id id) H) as M.
  destruct (match_and_consume _ s) as [[x s1]|], (match_and_consume _ s') as [[x' s1']|]; try contradiction; [|split; auto; exact I].
  destruct M as [_ H1]. eapply rsim_bind; [apply parse_assignment_lhs_sim; exact H1|]. intros d s2 d' s2' Hd H2. split; auto.
Qed.

Lemma Ropt_lhs_eq d d' : Ropt Rlhs d d' -> option_map er_lhs d = option_map er_lhs d'.
Proof. destruct d, d'; cbn; try contradiction; auto. unfold Rlhs. congruence. Qed.

Lemma parse_mutation_sim f s s' : ssim s s' -> rsim Rs (parse_mutation prof f s) (parse_mutation prof f s').
Proof.
  intro H. unfold parse_mutation.
  eapply rsim_bind; [apply consume_sim; [apply resp_is_one_of|exact H]|]. intros t s1 t' s1' [Ht _] H1.
  rewrite Ht. destruct (get_mutation_operator (tid t')); cbn [unwrap_op bind]; [|exact I].
  eapply rsim_bind; [apply (el_primary f (EL_all f)); exact H1|]. intros operand s2 operand' s2' Ho H2.
  eapply rsim_bind; [apply opt_lhs_after_sim; exact H2|]. intros dest s3 dest' s3' Hd H3.
  eapply (class_bind (fun _ _ : unit => True)).
  - destruct dest, dest'; try contradiction; [exact I|].
    unfold Rp in Ho. destruct operand, operand'; cbn in Ho; try discriminate; exact I.
  - intros _ _ _.
    eapply (rsim_bind (Ropt Re)).
    + pose proof (mac_sim _ s3 s3' (resp_is_id TWith) H3) as M.
      destruct (match_and_consume _ s3) as [[x s4]|], (match_and_consume _ s3') as [[x' s4']|]; try contradiction; [|split; auto; exact I].
      destruct M as [_ H4]. eapply rsim_bind; [apply (el_expr f (EL_all f)); exact H4|]. intros e s5 e' s5' He H5. split; auto.
    + intros param s4 param' s4' Hp H4. apply Ropt_lhs_eq in Hd. split; auto. unfold Rs. cbn.
      assert (option_map er_e param = option_map er_e param') by (destruct param, param'; cbn in *; try contradiction; auto; unfold Re in Hp; congruence).
      unfold Rp in Ho. congruence.
Qed.

Lemma parse_rounding_direction_sim s s' : ssim s s' ->
  fst (parse_rounding_direction s) = fst (parse_rounding_direction s') /\ ssim (snd (parse_rounding_direction s)) (snd (parse_rounding_direction s')).
Proof.
  intro H. unfold parse_rounding_direction. pose proof (mac_sim _ s s' (resp_is_one_of [TUp; TDown; TRound]) H) as M.
  destruct (match_and_consume _ s) as [[t s1]|], (match_and_consume _ s') as [[t' s1']|]; try contradiction; [|split; auto].
  destruct M as [[Mt _] Ms]. cbn. rewrite Mt. split; auto.
Qed.

Lemma parse_rounding_sim f s s' : ssim s s' -> rsim Rs (parse_rounding prof f s) (parse_rounding prof f s').
Proof.
  intro H. unfold parse_rounding.
  eapply rsim_bind; [apply consume_sim; [apply resp_is_id|exact H]|]. intros t s1 t' s1' _ H1.
  pose proof (parse_rounding_direction_sim s1 s1' H1) as [D1 D2].
  destruct (parse_rounding_direction s1) as [d1 s2], (parse_rounding_direction s1') as [d1' s2']. cbn in D1, D2. subst d1'.
  eapply rsim_bind; [apply (el_expr f (EL_all f)); exact D2|]. intros operand s3 operand' s3' Ho H3.
  destruct d1 as [d|]; [fin|].
  pose proof (parse_rounding_direction_sim s3 s3' H3) as [E1 E2].
  destruct (parse_rounding_direction s3) as [d2 s4], (parse_rounding_direction s3') as [d2' s4']. cbn in E1, E2. subst d2'.
  destruct d2 as [d|]; [|exact I]. split; auto. unfold Rs, Re in *. cbn. congruence.
Qed.

Lemma parse_break_sim s s' : ssim s s' -> rsim Rs (parse_break prof s) (parse_break prof s').
Proof.
  intro H. unfold parse_break.
  eapply rsim_bind; [apply consume_sim; [apply resp_is_id|exact H]|]. intros b s1 b' s1' _ H1.
  pose proof (current_sim s1 s1' H1) as C. pose proof (advance_sim s1 s1' H1) as A.
  destruct (current s1) as [t|], (current s1') as [t'|]; try contradiction; [|split; auto; reflexivity].
  rewrite (is_ispelled_sim (lit "it") t t' C). destruct (is_ispelled (lit "it") t') as [it| | | | |]; cbn [bind]; try exact I.
  destruct it; [|split; auto; reflexivity].
  destruct (advance s1) as [[a s2]|], (advance s1') as [[a' s2']|]; try contradiction; [|split; auto; reflexivity].
  destruct A as [_ H2]. eapply rsim_bind; [apply expect_token_sim; exact H2|]. intros d s3 d' s3' _ H3. split; auto. reflexivity.
Qed.

Lemma parse_simple_continue_sim s s' : ssim s s' -> rsim Rs (parse_simple_continue prof s) (parse_simple_continue prof s').
Proof.
  intro H. unfold parse_simple_continue.
  eapply rsim_bind; [apply consume_sim; [apply resp_is_id|exact H]|]. intros c s1 c' s1' _ H1. split; auto. reflexivity.
Qed.

Lemma parse_take_it_to_the_top_sim s s' : ssim s s' -> rsim Rs (parse_take_it_to_the_top prof s) (parse_take_it_to_the_top prof s').
Proof.
  intro H. unfold parse_take_it_to_the_top.
  eapply rsim_bind; [apply consume_sim; [apply resp_is_id|exact H]|]. intros t0 s1 t0' s1' _ H1.
  eapply rsim_bind; [apply expect_token_ispelled_sim; exact H1|]. intros x2 s2 x2' s2' _ H2.
  eapply rsim_bind; [apply expect_token_sim; exact H2|]. intros x3 s3 x3' s3' _ H3.
  eapply rsim_bind; [apply expect_token_ispelled_sim; exact H3|]. intros x4 s4 x4' s4' _ H4.
  eapply rsim_bind; [apply expect_token_sim; exact H4|]. intros t1 s5 t1' s5' _ H5. split; auto. reflexivity.
Qed.

Lemma parse_array_push_sim f s s' : ssim s s' -> rsim Rs (parse_array_push prof f s) (parse_array_push prof f s').
Proof.
  intro H. unfold parse_array_push.
  eapply rsim_bind; [apply consume_sim; [apply resp_is_id|exact H]|]. intros t s1 t' s1' _ H1.
  eapply rsim_bind; [apply (el_primary f (EL_all f)); exact H1|]. intros arr s2 arr' s2' Ha H2.
  pose proof (mac_sim _ s2 s2' (resp_is_one_of [TWith; TLike]) H2) as M.
  destruct (match_and_consume _ s2) as [[x s3]|], (match_and_consume _ s2') as [[x' s3']|]; try contradiction; [|fin].
  destruct M as [[Mx _] H3]. rewrite Mx.
  destruct (tid x'); try exact I.
  - eapply rsim_bind; [apply parse_poetic_number_literal_sim; exact H3|]. intros el s4 el' s4' -> H4. fin.
  - eapply rsim_bind; [apply toplevel_list_sim; exact H3|]. intros [first rest_] s4 [first' rest_'] s4' [Hf Hr] H4. fin.
Qed.

Lemma parse_array_pop_sim f s s' : ssim s s' -> rsim Rs (parse_array_pop prof f s) (parse_array_pop prof f s').
Proof.
  intro H. unfold parse_array_pop.
  eapply rsim_bind; [apply consume_sim; [apply resp_is_id|exact H]|]. intros t s1 t' s1' _ H1.
  eapply rsim_bind; [apply (el_primary f (EL_all f)); exact H1|]. intros arr s2 arr' s2' Ha H2.
  eapply rsim_bind; [apply opt_lhs_after_sim; exact H2|]. intros dest s3 dest' s3' Hd H3.
  apply Ropt_lhs_eq in Hd. fin.
Qed.

Lemma parse_return_sim f s s' : ssim s s' -> rsim Rs (parse_return prof f s) (parse_return prof f s').
Proof.
  intro H. unfold parse_return.
  eapply rsim_bind; [apply consume_sim; [apply resp_is_id|exact H]|]. intros rt s1 rt' s1' Hrt H1.
  rewrite (is_ispelled_sim (lit "give") rt rt' Hrt). destruct (is_ispelled (lit "give") rt') as [give| | | | |]; cbn [bind]; try exact I.
  assert (H2 : ssim (if give then skip_opt (is_id TBack) s1 else s1) (if give then skip_opt (is_id TBack) s1' else s1')).
  { destruct give; auto. apply skip_opt_sim; [apply resp_is_id|exact H1]. }
  eapply rsim_bind; [apply (el_expr f (EL_all f)); exact H2|]. intros e s3 e' s3' He H3.
  split; [|apply skip_opt_sim; [apply resp_is_id|exact H3]]. unfold Rs, Re in *. cbn. congruence.
Qed.

(** * Statements and blocks *)
Definition Ros (x x' : option stmt) : Prop := Ropt Rs x x'.

Record BL (f : nat) : Prop := mkBL {
  bl_stmt : forall s s', ssim s s' -> rsim Ros (parse_statement prof buf f s) (parse_statement prof buf' f s');
  bl_word : forall s s', ssim s s' -> rsim Rs (parse_statement_starting_with_word prof buf f s) (parse_statement_starting_with_word prof buf' f s');
  bl_fun : forall n nr nr' s s', ssim s s' -> rsim Rs (parse_function prof buf f n nr s) (parse_function prof buf' f n nr' s');
  bl_if : forall s s', ssim s s' -> rsim Rs (parse_if prof buf f s) (parse_if prof buf' f s');
  bl_loop : forall s s', ssim s s' -> rsim Rs (parse_loop prof buf f s) (parse_loop prof buf' f s');
  bl_block : forall s s', ssim s s' -> rsim Rb (parse_block prof buf f s) (parse_block prof buf' f s');
  bl_fblock : forall s s', ssim s s' -> rsim Rb (parse_function_block prof buf f s) (parse_function_block prof buf' f s');
  bl_stmts : forall inf s s' acc acc', ssim s s' -> Rss acc acc' ->
             rsim Rss (block_statements prof buf f inf s acc) (block_statements prof buf' f inf s' acc')
}.

Lemma BL_0 : BL 0.
Proof. constructor; intros; exact I. Qed.

Lemma some_sim (r r' : pres (stmt * pstate)) : rsim Rs r r' ->
  rsim Ros (let* (x, s') := r in Ok (Some x, s')) (let* (x, s') := r' in Ok (Some x, s')).
Proof. intro H. eapply rsim_bind; [exact H|]. intros a s a' s' Ha Hs. split; auto. Qed.

Lemma block_new_sim l l' ss ss' : Rss ss ss' -> Rb (block_new l ss) (block_new l' ss').
Proof.
  unfold Rss, Rb, block_new. intro H. destruct ss, ss'; cbn in *; try discriminate; auto. congruence.
Qed.

Lemma Rss_app a a' x x' : Rss a a' -> Rs x x' -> Rss (a ++ [x]) (a' ++ [x']).
Proof. unfold Rss, Rs. intros H1 H2. rewrite !map_app. cbn. congruence. Qed.

Lemma ift_er x : is_function_terminator (er_s x) = is_function_terminator x.
Proof. destruct x; cbn; try reflexivity; [destruct rhs; reflexivity|destruct else_; reflexivity]. Qed.

Lemma is_function_terminator_sim x x' : Rs x x' -> is_function_terminator x = is_function_terminator x'.
Proof. unfold Rs. intro H. rewrite <- (ift_er x), H, ift_er. reflexivity. Qed.

Definition Rvr (x x' : varname * range) : Prop := fst x = fst x'.

Lemma params_eq (l l' : list (varname * range)) : Forall2 Rvr l l' ->
  map (fun p : varname * range => (fst p, r0)) l = map (fun p : varname * range => (fst p, r0)) l'.
Proof. induction 1; cbn; [reflexivity|]. unfold Rvr in H. congruence. Qed.

Lemma pstmt_S b f s :
  parse_statement prof b (S f) s =
  (let some := fun r : pres (stmt * pstate) => let* (x, s') := r in Ok (Some x, s') in
   match current s with
   | None => Ok (None, s)
   | Some t =>
       match tid t with
       | TPut => some (parse_put_assignment prof f s)
       | TLet => some (parse_let_assignment prof f s)
       | TWord | TCommonVariablePrefix | TPronoun => some (parse_statement_starting_with_word prof b f s)
       | TIf => some (parse_if prof b f s)
       | TWhile | TUntil => some (parse_loop prof b f s)
       | TElse => Ok (None, s)
       | TNewline => Ok (None, s)
       | TBuild => let* (i, r, k, s1) := parse_build_knock prof TBuild TUp s in Ok (Some (SInc i r k), s1)
       | TKnock => let* (i, r, k, s1) := parse_build_knock prof TKnock TDown s in Ok (Some (SDec i r k), s1)
       | TSay | TSayAlias => some (parse_say prof f s)
       | TListen => some (parse_listen prof f s)
       | TCut | TJoin | TCast => some (parse_mutation prof f s)
       | TTurn => some (parse_rounding prof f s)
       | TBreak => some (parse_break prof s)
       | TContinue => some (parse_simple_continue prof s)
       | TTake => some (parse_take_it_to_the_top prof s)
       | TRock => some (parse_array_push prof f s)
       | TRoll => some (parse_array_pop prof f s)
       | TReturn => some (parse_return prof f s)
       | _ => fail s PUnexpectedToken
       end
   end).
Proof. reflexivity. Qed.

Lemma pword_S b f s :
  parse_statement_starting_with_word prof b (S f) s =
  (let* (i, r, s1) := expect_identifier prof s in
   match current s1 with
   | Some t =>
       match tid t with
       | TTakes => let* (n, nr) := as_variable_name s1 i r in parse_function prof b f n nr s1
       | TTaking =>
           let* (n, nr) := as_variable_name s1 i r in
           let* (args, s2) := parse_function_call_args prof f s1 in
           Ok (SCall n nr args, s2)
       | _ => parse_poetic_assignment prof b f i r s1
       end
   | None => parse_poetic_assignment prof b f i r s1
   end).
Proof. reflexivity. Qed.

Lemma pfun_S b f n nr s :
  parse_function prof b (S f) n nr s =
  (let* (_, s1) := consume prof (is_id TTakes) s in
   let* (params, s2) :=
     parse_parameter_list (fun st => let* (v, r, st') := expect_variable_name prof st in Ok ((v, r), st')) f s1 in
   let* (_, s3) := expect_eol s2 in
   let* (body, s4) := parse_function_block prof b f s3 in
   Ok (SFunction n nr params body, s4)).
Proof. reflexivity. Qed.

Lemma pif_S b f s :
  parse_if prof b (S f) s =
  (let* (_, s1) := consume prof (is_id TIf) s in
   let* (c, s2) := parse_expression prof f s1 in
   let* (_, s3) := expect_eol s2 in
   let* (th, s4) := parse_block prof b f s3 in
   match match_and_consume (is_id TElse) s4 with
   | Some (_, s5) =>
       let* (_, s6) := expect_token_or_end TNewline s5 in
       let* (el, s7) := parse_block prof b f s6 in
       Ok (SIf c th (Some el), s7)
   | None => Ok (SIf c th None, s4)
   end).
Proof. reflexivity. Qed.

Lemma ploop_S b f s :
  parse_loop prof b (S f) s =
  (let* (t, s1) := consume prof (is_one_of [TWhile; TUntil]) s in
   let* (c, s2) := parse_expression prof f s1 in
   let* (_, s3) := expect_eol s2 in
   let* (bl, s4) := parse_block prof b f s3 in
   match tid t with
   | TWhile => Ok (SWhile c bl, s4)
   | _ => Ok (SUntil c bl, s4)
   end).
Proof. reflexivity. Qed.

Lemma pblock_S b f s :
  parse_block prof b (S f) s =
  (let l := ploc s in
   match match_and_consume (is_id TNewline) s with
   | Some (_, s1) => Ok (block_new l [], s1)
   | None => let* (ss, s1) := block_statements prof b f false s [] in Ok (block_new l ss, s1)
   end).
Proof. reflexivity. Qed.

Lemma pfblock_S b f s :
  parse_function_block prof b (S f) s =
  (let l := ploc s in
   match match_and_consume (is_id TNewline) s with
   | Some (_, s1) => Ok (block_new l [], s1)
   | None => let* (ss, s1) := block_statements prof b f true s [] in Ok (block_new l ss, s1)
   end).
Proof. reflexivity. Qed.

Lemma pstmts_S b f inf s acc :
  block_statements prof b (S f) inf s acc =
  (let* (so, s1) := parse_statement prof b f s in
   match so with
   | None => Ok (acc, s1)
   | Some st =>
       if inf && is_function_terminator st then Ok (acc ++ [st], s1)
       else let* (_, s2) := expect_eol s1 in block_statements prof b f inf s2 (acc ++ [st])
   end).
Proof. reflexivity. Qed.

Lemma BL_S f : BL f -> BL (S f).
Proof.
  intros [Hstmt Hword Hfun Hif Hloop Hblock Hfblock Hstmts].
  constructor.
  - (* parse_statement *)
    intros s s' H. rewrite !pstmt_S. cbv zeta. pose proof (current_sim s s' H) as C.
    destruct (current s) as [t|], (current s') as [t'|]; try contradiction; [|split; auto; exact I].
    destruct C as [C1 _]. rewrite C1.
    destruct (tid t'); try exact I;
      try (apply some_sim;
           first [ apply parse_put_assignment_sim | apply parse_let_assignment_sim | apply Hword | apply Hif | apply Hloop
                 | apply parse_say_sim | apply parse_listen_sim | apply parse_mutation_sim | apply parse_rounding_sim
                 | apply parse_break_sim | apply parse_simple_continue_sim | apply parse_take_it_to_the_top_sim
                 | apply parse_array_push_sim | apply parse_array_pop_sim | apply parse_return_sim ]; exact H);
      try (split; auto; exact I).
    + pose proof (parse_build_knock_sim TBuild TUp s s' H) as B.
      destruct (parse_build_knock prof TBuild TUp s) as [[[[i r] k] s1]| | | | |], (parse_build_knock prof TBuild TUp s') as [[[[i' r'] k'] s1']| | | | |];
        cbn in *; try contradiction; auto.
      destruct B as [[Bi Bk] Bs]. cbn in Bi, Bk. subst. split; auto. reflexivity.
    + pose proof (parse_build_knock_sim TKnock TDown s s' H) as B.
      destruct (parse_build_knock prof TKnock TDown s) as [[[[i r] k] s1]| | | | |], (parse_build_knock prof TKnock TDown s') as [[[[i' r'] k'] s1']| | | | |];
        cbn in *; try contradiction; auto.
      destruct B as [[Bi Bk] Bs]. cbn in Bi, Bk. subst. split; auto. reflexivity.
  - (* starting with a word *)
    intros s s' H. rewrite !pword_S.
    pose proof (expect_identifier_sim s s' H) as E.
    destruct (expect_identifier prof s) as [[[i r] s1]| | | | |] eqn:Eid, (expect_identifier prof s') as [[[i' r'] s1']| | | | |]; cbn [bind] in *; try contradiction; auto.
    destruct E as [Ei H1]. unfold Rfst in Ei. cbn in Ei. subst i'.
    destruct (expect_identifier_sound prof s i r s1 Eid) as (tsi & Hpi & Gi).
    assert (Hst : started s1).
    { destruct (g_ident_nlf tsi i Gi) as [Hne Hnl].
      eapply started_step; [exact Hpi|eapply ssim_pos; exact H|eapply ssim_pos; exact H1|exact Hnl|left; exact Hne]. }
    assert (Hgi : exists ti, g_ident ti i) by eauto.
    pose proof (current_sim s1 s1' H1) as C.
    destruct (current s1) as [t|], (current s1') as [t'|]; try contradiction; [|apply parse_poetic_assignment_sim; auto].
    destruct C as [C1 _]. rewrite C1.
    destruct (tid t'); try (apply parse_poetic_assignment_sim; auto).
    + eapply class_bind; [apply (as_variable_name_sim s1 s1' i r r')|]. intros [n nr] [n' nr'] Hn. unfold Rfst in Hn. cbn in Hn. subst n'.
      apply Hfun; exact H1.
    + eapply class_bind; [apply (as_variable_name_sim s1 s1' i r r')|]. intros [n nr] [n' nr'] Hn. unfold Rfst in Hn. cbn in Hn. subst n'.
      eapply rsim_bind; [apply (el_args f (EL_all f)); exact H1|]. intros a s2 a' s2' Ha H2. fin.
  - (* function *)
    intros n nr nr' s s' H. rewrite !pfun_S.
    eapply rsim_bind; [apply consume_sim; [apply resp_is_id|exact H]|]. intros t s1 t' s1' _ H1.
    eapply (rsim_bind (Forall2 Rvr)).
    + apply (parse_parameter_list_sim Rvr); [|exact H1]. intros st st' Hst.
      pose proof (expect_variable_name_sim st st' Hst) as E.
      destruct (expect_variable_name prof st) as [[[v r] st1]| | | | |], (expect_variable_name prof st') as [[[v' r'] st1']| | | | |]; cbn in *; try contradiction; auto.
    + intros params s2 params' s2' Hp H2.
      eapply rsim_bind; [apply expect_eol_sim; exact H2|]. intros u s3 u' s3' _ H3.
      eapply rsim_bind; [apply Hfblock; exact H3|]. intros body s4 body' s4' Hb H4.
      split; auto. unfold Rs, Rb in *. cbn. rewrite (params_eq _ _ Hp). congruence.
  - (* if *)
    intros s s' H. rewrite !pif_S.
    eapply rsim_bind; [apply consume_sim; [apply resp_is_id|exact H]|]. intros t s1 t' s1' _ H1.
    eapply rsim_bind; [apply (el_expr f (EL_all f)); exact H1|]. intros c s2 c' s2' Hc H2.
    eapply rsim_bind; [apply expect_eol_sim; exact H2|]. intros u s3 u' s3' _ H3.
    eapply rsim_bind; [apply Hblock; exact H3|]. intros th s4 th' s4' Hth H4.
    pose proof (mac_sim _ s4 s4' (resp_is_id TElse) H4) as M.
    destruct (match_and_consume _ s4) as [[x s5]|], (match_and_consume _ s4') as [[x' s5']|]; try contradiction; [|fin].
    destruct M as [_ H5].
    eapply rsim_bind; [apply expect_token_or_end_sim; exact H5|]. intros o s6 o' s6' _ H6.
    eapply rsim_bind; [apply Hblock; exact H6|]. intros el s7 el' s7' Hel H7. fin.
  - (* loop *)
    intros s s' H. rewrite !ploop_S.
    eapply rsim_bind; [apply consume_sim; [apply resp_is_one_of|exact H]|]. intros t s1 t' s1' [Ht _] H1.
    eapply rsim_bind; [apply (el_expr f (EL_all f)); exact H1|]. intros c s2 c' s2' Hc H2.
    eapply rsim_bind; [apply expect_eol_sim; exact H2|]. intros u s3 u' s3' _ H3.
    eapply rsim_bind; [apply Hblock; exact H3|]. intros b s4 b' s4' Hb H4.
    rewrite Ht. destruct (tid t'); fin.
  - (* block *)
    intros s s' H. rewrite !pblock_S. cbv zeta.
    pose proof (mac_sim _ s s' (resp_is_id TNewline) H) as M.
    destruct (match_and_consume _ s) as [[x s1]|], (match_and_consume _ s') as [[x' s1']|]; try contradiction.
    + destruct M as [_ H1]. split; auto. apply block_new_sim. reflexivity.
    + eapply rsim_bind; [apply Hstmts; [exact H|reflexivity]|]. intros ss s1 ss' s1' Hss H1. split; auto. apply block_new_sim; auto.
  - (* function block *)
    intros s s' H. rewrite !pfblock_S. cbv zeta.
    pose proof (mac_sim _ s s' (resp_is_id TNewline) H) as M.
    destruct (match_and_consume _ s) as [[x s1]|], (match_and_consume _ s') as [[x' s1']|]; try contradiction.
    + destruct M as [_ H1]. split; auto. apply block_new_sim. reflexivity.
    + eapply rsim_bind; [apply Hstmts; [exact H|reflexivity]|]. intros ss s1 ss' s1' Hss H1. split; auto. apply block_new_sim; auto.
  - (* statements of a block *)
    intros inf s s' acc acc' H Ha. rewrite !pstmts_S.
    eapply rsim_bind; [apply Hstmt; exact H|]. intros so s1 so' s1' Hso H1.
    destruct so as [st|], so' as [st'|]; try contradiction; [|split; auto].
    rewrite (is_function_terminator_sim st st' Hso).
    destruct (inf && is_function_terminator st').
    + split; auto. apply Rss_app; auto.
    + eapply rsim_bind; [apply expect_eol_sim; exact H1|]. intros u s2 u' s2' _ H2. apply Hstmts; auto. apply Rss_app; auto.
Qed.

Theorem BL_all f : BL f.
Proof. induction f; [apply BL_0|apply BL_S; auto]. Qed.

Definition Rprog (p p' : program) : Prop := er_prog p = er_prog p'.

Lemma block_is_empty_sim b b' : Rb b b' -> block_is_empty b = block_is_empty b'.
Proof. unfold Rb. destruct b, b'; cbn; intro H; try discriminate; reflexivity. Qed.

Lemma parse_blocks_sim : forall fuel s s' acc acc', ssim s s' -> Rprog acc acc' ->
  same_class Rprog (parse_blocks prof buf fuel s acc) (parse_blocks prof buf' fuel s' acc').
Proof.
  induction fuel as [|f IH]; intros s s' acc acc' H Ha; cbn [parse_blocks]; [exact I|].
  pose proof (current_sim s s' H) as C.
  destruct (current s) as [t|], (current s') as [t'|]; try contradiction; [|exact Ha].
  pose proof (bl_block (S f) (BL_all (S f)) s s' H) as B.
  destruct (parse_block prof buf (S f) s) as [[b s1]| | | | |], (parse_block prof buf' (S f) s') as [[b' s1']| | | | |]; cbn [bind] in *; try contradiction; auto.
  destruct B as [Bb Bs]. cbn in Bb, Bs.
  rewrite (current_matches_sim _ s1 s1' (resp_is_id TElse) Bs). destruct (current_matches (is_id TElse) s1'); [exact I|].
  apply IH; auto. rewrite (block_is_empty_sim b b' Bb). destruct (block_is_empty b'); auto.
  unfold Rprog, er_prog, Rb in *. rewrite !map_app. cbn. congruence.
Qed.

(** ** C02: the tree depends on the token sequence only *)
Theorem layout_invariance ln lc ln' lc' fuel :
  tksim full full' ->
  same_class Rprog (parse_blocks prof buf fuel (mkPS full ln lc false) []) (parse_blocks prof buf' fuel (mkPS full' ln' lc' false) []).
Proof.
  intro H. apply parse_blocks_sim; [|reflexivity].
  split; [exact H|]. split; [reflexivity|]. exists [], []. cbn. auto.
Qed.
End Layout.

(** * The relation is reflexive (a source is related to itself), and relates different layouts *)
Lemma dun_toks : forall fuel s s', toks s = toks s' -> toks (drop_until_newline s fuel) = toks (drop_until_newline s' fuel).
Proof.
  induction fuel as [|f IH]; intros s s' H; cbn [drop_until_newline]; auto.
  unfold current, advance. rewrite H. destruct (toks s') as [|p0 l] eqn:E; [congruence|].
  destruct (tid (pt_tok p0)); try congruence; apply IH; reflexivity.
Qed.

Lemma ptext_lines b t l ln lc pl ln' lc' pl' :
  same_class eq (ptext b t (mkPS l ln lc pl)) (ptext b t (mkPS l ln' lc' pl')).
Proof.
  unfold ptext, parse_poetic_string_rhs. cbn [toks].
  pose proof (dun_toks (length l) (mkPS l ln lc pl) (mkPS l ln' lc' pl') eq_refl) as E.
  unfold current. rewrite E.
  match goal with |- same_class eq (bind match ?x with _ => _ end _) _ => destruct x end; cbn [bind]; [|exact I].
  destruct (strip_prefix (tspell t) s); cbn [bind]; [|exact I].
  destruct (strip_prefix (lit " ") s0); cbn; auto.
Qed.

Theorem tksim_refl b l : tksim b b l l.
Proof. induction l as [|pt l IH]; constructor; auto using tsim_refl. intros _ ln lc pl ln' lc' pl'. apply ptext_lines. Qed.

(** * The whole front end *)
Definition same_parse (r r' : parse_result) : Prop :=
  match r, r' with
  | ParseOk p, ParseOk p' => er_prog p = er_prog p'
  | ParseErr _, ParseErr _ => True
  | ParseCrash _ _, ParseCrash _ _ => True
  | ParseOutOfFuel, ParseOutOfFuel => True
  | _, _ => False
  end.

(** where a `say` token stands in the middle of a line (the only place where the parser can take it for the
    marker of a poetic string) the two sources agree on the raw text after it *)
Definition say_texts_agree (b b' : str) (full full' : list ptoken) : Prop :=
  forall pre pt l pre' pt' l',
  full = pre ++ pt :: l -> full' = pre' ++ pt' :: l' -> length pre = length pre' ->
  tid (pt_tok pt) = TSay -> line_started pre ->
  forall ln lc pl ln' lc' pl',
    same_class eq (ptext b (pt_tok pt) (mkPS l ln lc pl)) (ptext b' (pt_tok pt') (mkPS l' ln' lc' pl')).

Theorem parse_layout_invariant prof src src' pts pts' :
  lex prof src = Ok pts -> lex prof src' = Ok pts' ->
  tksim src src' (drop_comments pts) (drop_comments pts') ->
  say_texts_agree src src' (drop_comments pts) (drop_comments pts') ->
  same_parse (parse prof src) (parse prof src').
Proof.
  intros Hl Hl' Hk Hs. unfold parse. rewrite Hl, Hl'. rewrite (tksim_length _ _ _ _ Hk).
  pose proof (layout_invariance prof src src' _ _ Hs 1%N (mkLoc 1 0) 1%N (mkLoc 1 0) (parse_fuel (length (drop_comments pts'))) Hk) as H.
  destruct (parse_blocks prof src _ _ []) as [p| | | | |], (parse_blocks prof src' _ _ []) as [p'| | | | |]; cbn in *; auto; contradiction.
Qed.

(** every `say` of a source starts a line (as in every program that does not use `say` for `says`): decidable,
    and then there is no condition on `say` lines at all *)
Fixpoint say_starts_lines (at_start : bool) (l : list ptoken) : bool :=
  match l with
  | [] => true
  | pt :: t => (if ttype_eqb TSay (tid (pt_tok pt)) then at_start else true) && say_starts_lines (bolflag (pt_tok pt)) t
  end.

Lemma say_starts_split : forall pre b pt l, say_starts_lines b (pre ++ pt :: l) = true -> tid (pt_tok pt) = TSay ->
  match rev pre with p :: _ => bolflag (pt_tok p) | [] => b end = true.
Proof.
  induction pre as [|x pre IH]; intros b pt l H Ht; cbn in H.
  - rewrite Ht in H. cbn in H. apply andb_true_iff in H as [H _]. exact H.
  - apply andb_true_iff in H as [_ H]. specialize (IH _ _ _ H Ht). cbn [rev].
    destruct (rev pre) as [|p r]; cbn; auto.
Qed.

Lemma say_starts_agree b b' full full' : say_starts_lines true full = true -> say_texts_agree b b' full full'.
Proof.
  intros H pre pt l pre' pt' l' E _ _ Ht Hst. exfalso. subst full.
  pose proof (say_starts_split pre true pt l H Ht) as K. unfold line_started, nlf in Hst.
  destruct (rev pre); [contradiction|]. rewrite K in Hst. discriminate.
Qed.

Corollary parse_layout_invariant_say prof src src' pts pts' :
  lex prof src = Ok pts -> lex prof src' = Ok pts' ->
  tksim src src' (drop_comments pts) (drop_comments pts') ->
  say_starts_lines true (drop_comments pts) = true ->
  same_parse (parse prof src) (parse prof src').
Proof. intros Hl Hl' Hk Hs. eapply parse_layout_invariant; eauto. apply say_starts_agree. exact Hs. Qed.

(** non-vacuity: the same two statements laid out differently (indentation, runs of spaces, a comment, a tab) have
    different token lists (offsets, ranges) that are related, hence the same tree up to positions *)
Definition ex_a : str := lit "put 1 into X" ++ [10%N] ++ lit "build X up, up" ++ [10%N] ++ lit "say X plus 1" ++ [10%N].
Definition ex_b : str := lit "  put   1 into (the counter) X" ++ [10%N; 9%N] ++ lit "build X   up,  up" ++ [10%N] ++ lit "   say   X    plus 1  " ++ [10%N].
Definition ex_pa : list ptoken := Eval vm_compute in match lex Debug ex_a with Ok l => l | _ => [] end.
Definition ex_pb : list ptoken := Eval vm_compute in match lex Debug ex_b with Ok l => l | _ => [] end.

Lemma ex_related : tksim ex_a ex_b (drop_comments ex_pa) (drop_comments ex_pb).
Proof.
  vm_compute drop_comments.
  repeat (constructor; [split; reflexivity| |intro Hy; discriminate Hy]). constructor.
Qed.

Example layout_example :
  lex Debug ex_a = Ok ex_pa /\ lex Debug ex_b = Ok ex_pb /\
  map pt_tok (drop_comments ex_pa) <> map pt_tok (drop_comments ex_pb) /\
  same_parse (parse Debug ex_a) (parse Debug ex_b) /\ exists p, parse Debug ex_a = ParseOk p.
Proof.
  split; [vm_compute; reflexivity|]. split; [vm_compute; reflexivity|]. split; [vm_compute; discriminate|].
  split; [eapply parse_layout_invariant_say; [vm_compute; reflexivity|vm_compute; reflexivity|exact ex_related|vm_compute; reflexivity]|].
  eexists. vm_compute. reflexivity.
Qed.

(** without `says` tokens the relation is just: same kinds and spellings, token by token *)
Lemma tksim_intro b b' l l' :
  Forall2 (fun pt pt' => tsim (pt_tok pt) (pt_tok pt')) l l' -> Forall (fun pt => tid (pt_tok pt) <> TSays) l -> tksim b b' l l'.
Proof.
  induction 1 as [|pt pt' l l' Ht Hl IH]; intro Hn; constructor; auto.
  - apply IH. inversion Hn; auto.
  - inversion Hn as [|? ? Hp _]; subst. unfold is_says. intro Hy. destruct (tid (pt_tok pt)); try discriminate. contradiction.
Qed.

(** so, for sources that use neither `says` nor a mid-line `say`: same token kinds and spellings, same tree *)
Corollary parse_layout_invariant_plain prof src src' pts pts' :
  lex prof src = Ok pts -> lex prof src' = Ok pts' ->
  Forall2 (fun pt pt' => tsim (pt_tok pt) (pt_tok pt')) (drop_comments pts) (drop_comments pts') ->
  Forall (fun pt => tid (pt_tok pt) <> TSays) (drop_comments pts) ->
  say_starts_lines true (drop_comments pts) = true ->
  same_parse (parse prof src) (parse prof src').
Proof. intros Hl Hl' Hf Hn Hs. eapply parse_layout_invariant_say; eauto. apply tksim_intro; auto. Qed.
