(** C20: routing of library results by the command-line front end. *)
From Coq Require Import List NArith.
From RRSS Require Import Base.Chars Lint.Lint Cli.Cli.
Import ListNotations.

Theorem cli_exec_stdout out r : c_stdout (cli_exec out r) = out.
Proof. destruct r; reflexivity. Qed.

Theorem cli_exec_errors_to_stderr out m :
  c_stderr (cli_exec out (LibParseError m)) = lit "Parse error: " ++ m ++ nl /\
  c_stderr (cli_exec out (LibRuntimeError m)) = lit "Runtime error: " ++ m ++ nl /\
  c_stderr (cli_exec out LibOk) = [].
Proof. repeat split; reflexivity. Qed.

Theorem cli_lint_routes r ds :
  match r with
  | LibParseError m => c_stdout (cli_lint r ds) = [] /\ c_stderr (cli_lint r ds) = lit "Parse error: " ++ m ++ nl
  | _ => c_stderr (cli_lint r ds) = [] /\
         c_stdout (cli_lint r ds) = match ds with [] => lit "No lint issues found :)" | _ => flat_map cli_diag ds end
  end.
Proof. destruct r; destruct ds; split; reflexivity. Qed.

Theorem cli_parse_routes r t :
  match r with
  | LibParseError m => c_stdout (cli_parse r t) = [] /\ c_stderr (cli_parse r t) = lit "Parse error: " ++ m ++ nl
  | _ => c_stdout (cli_parse r t) = t ++ nl /\ c_stderr (cli_parse r t) = []
  end.
Proof. destruct r; split; reflexivity. Qed.

Theorem cli_failure_nonzero msg : c_exit (cli_failure msg) <> 0%N.
Proof. discriminate. Qed.
