(** C01: the parser's fuel always suffices.  Every loop of the parser consumes a token per
    iteration and the descent through the precedence ladder is bounded, so with fuel
    [40 * tokens + 40] no function of the model ever answers [OutOfFuel]: the model terminates
    with a program or an error on every token list (the F2 defect — a top-level `else` that was
    never consumed — is exactly what this theorem excludes). *)
From Coq Require Import List ZArith NArith Bool Lia.
From RRSS Require Import Base.Outcome Base.Chars Base.F64 Base.F64Text Exec.Ops Front.Ast Front.Token Front.Lexer Front.Parser.
Import ListNotations.

Definition sz (s : pstate) : nat := length (toks s).

(** no fuel exhaustion, and the state does not grow beyond [n] tokens *)
Definition nof {A} (n : nat) (r : pres (A * pstate)) : Prop :=
  match r with
  | Ok (_, s') => (sz s' <= n)%nat
  | OutOfFuel | OverBudget => False
  | _ => True
  end.

(** ... and at least one token was consumed *)
Definition nofs {A} (n : nat) (r : pres (A * pstate)) : Prop :=
  match r with
  | Ok (_, s') => (sz s' < n)%nat
  | OutOfFuel | OverBudget => False
  | _ => True
  end.

Definition nopure {A} (r : pres A) : Prop := match r with OutOfFuel | OverBudget => False | _ => True end.

Lemma nof_bind {A B} n (m : pres (A * pstate)) (f : A * pstate -> pres (B * pstate)) k :
  nof n m -> (forall x s', (sz s' <= n)%nat -> nof k (f (x, s'))) -> nof k (bind m f).
Proof. intros Hm Hf. destruct m as [[x s']| | | | |]; cbn in *; auto. Qed.

Lemma nofs_bind {A B} n (m : pres (A * pstate)) (f : A * pstate -> pres (B * pstate)) k :
  nofs n m -> (forall x s', (sz s' < n)%nat -> nof k (f (x, s'))) -> nof k (bind m f).
Proof. intros Hm Hf. destruct m as [[x s']| | | | |]; cbn in *; auto. Qed.

Lemma nof_bind_pure {A B} (m : pres A) (f : A -> pres (B * pstate)) k :
  nopure m -> (forall x, nof k (f x)) -> nof k (bind m f).
Proof. intros Hm Hf. destruct m; cbn in *; auto. Qed.

Lemma nofs_nof {A} n (r : pres (A * pstate)) : nofs n r -> nof n r.
Proof. destruct r as [[x s']| | | | |]; cbn; auto. lia. Qed.

Lemma nof_le {A} n k (r : pres (A * pstate)) : (n <= k)%nat -> nof n r -> nof k r.
Proof. destruct r as [[x s']| | | | |]; cbn; auto. lia. Qed.

Lemma nofs_le {A} n k (r : pres (A * pstate)) : (n <= k)%nat -> nofs n r -> nofs k r.
Proof. destruct r as [[x s']| | | | |]; cbn; auto. lia. Qed.

Lemma nofs_of_nof {A} n k (r : pres (A * pstate)) : (n < k)%nat -> nof n r -> nofs k r.
Proof. destruct r as [[x s']| | | | |]; cbn; auto. lia. Qed.

Lemma nof_ok {A} n (x : A) s : (sz s <= n)%nat -> nof n (Ok (x, s)).
Proof. auto. Qed.

Lemma nof_fail {A} n s c : nof n (@fail (A * pstate) s c).
Proof. exact I. Qed.

(** * Token consumption *)
Lemma advance_sz s t s' : advance s = Some (t, s') -> sz s = S (sz s').
Proof. unfold advance, sz. destruct (toks s); [discriminate|]. intro H. injection H as _ <-. reflexivity. Qed.

Lemma mac_sz m s t s' : match_and_consume m s = Some (t, s') -> sz s = S (sz s').
Proof.
  unfold match_and_consume. destruct (current s); [|discriminate]. destruct (m t0); [|discriminate]. apply advance_sz.
Qed.

Lemma skip_opt_sz m s : (sz (skip_opt m s) <= sz s)%nat.
Proof. unfold skip_opt. destruct (match_and_consume m s) as [[t s']|] eqn:E; auto. apply mac_sz in E. lia. Qed.

Lemma current_sz s t : current s = Some t -> (1 <= sz s)%nat.
Proof. unfold current, sz. destruct (toks s); [discriminate|]. cbn. lia. Qed.

Lemma current_none_sz s : current s = None -> sz s = 0%nat.
Proof. unfold current, sz. destruct (toks s); [reflexivity|discriminate]. Qed.

Section Fuel.
Variable prof : profile.

Lemma consume_nofs m s : nofs (sz s) (consume prof m s).
Proof.
  unfold consume. destruct (advance s) as [[t s']|] eqn:E.
  - apply advance_sz in E. destruct (debug_assert prof 60 (m t)) eqn:D; cbn; auto; try lia.
    all: unfold debug_assert in D; destruct prof; [destruct (m t)|]; discriminate.
  - destruct prof; exact I.
Qed.

Lemma expect_token_nofs id s : nofs (sz s) (expect_token id s).
Proof.
  unfold expect_token. destruct (match_and_consume (is_id id) s) as [[t s']|] eqn:E; [|exact I].
  apply mac_sz in E. cbn. lia.
Qed.

Lemma expect_any_nofs ids s : nofs (sz s) (expect_any ids s).
Proof.
  unfold expect_any. destruct (match_and_consume (is_one_of ids) s) as [[t s']|] eqn:E; [|exact I].
  apply mac_sz in E. cbn. lia.
Qed.

Lemma is_ispelled_nopure text t : nopure (is_ispelled text t).
Proof. unfold is_ispelled. destruct (forallb is_lowercase text); exact I. Qed.

Lemma expect_token_ispelled_nof text s : nof (sz s) (expect_token_ispelled text s).
Proof.
  unfold expect_token_ispelled. destruct (current s); [|exact I].
  apply nof_bind_pure; [apply is_ispelled_nopure|]. intros b. destruct b; [|exact I].
  destruct (advance s) as [[t' s']|] eqn:E; [|exact I]. apply advance_sz in E. cbn. lia.
Qed.

Lemma expect_token_or_end_nof id s : nof (sz s) (expect_token_or_end id s).
Proof.
  unfold expect_token_or_end. destruct (current s); [|cbn; lia].
  destruct (ttype_eqb (tid t) id); [|exact I].
  destruct (advance s) as [[t' s']|] eqn:E; [apply advance_sz in E; cbn; lia|cbn; lia].
Qed.

(** [expect_eol] consumes a token unless the input has ended *)
Lemma expect_eol_progress s :
  match expect_eol s with
  | Ok (_, s') => (sz s' < sz s)%nat \/ sz s' = 0%nat
  | OutOfFuel | OverBudget => False
  | _ => True
  end.
Proof.
  unfold expect_eol, expect_token_or_end.
  pose proof (skip_opt_sz (is_one_of [TComma; TDot]) s) as L.
  set (s1 := skip_opt (is_one_of [TComma; TDot]) s) in *.
  destruct (current s1) as [t|] eqn:Ec.
  - destruct (ttype_eqb (tid t) TNewline); [|exact I].
    destruct (advance s1) as [[t' s']|] eqn:E; cbn.
    + apply advance_sz in E. left. lia.
    + unfold advance in E. unfold current in Ec. destruct (toks s1); discriminate.
  - cbn. right. apply current_none_sz. exact Ec.
Qed.

Lemma expect_eol_nof s : nof (sz s) (expect_eol s).
Proof.
  pose proof (expect_eol_progress s) as H. destruct (expect_eol s) as [[x s']| | | | |]; cbn in *; auto. lia.
Qed.

(** * Identifiers (their loops carry their own fuel) *)
Lemma parse_common_identifier_nof s : nof (sz s) (parse_common_identifier s).
Proof.
  unfold parse_common_identifier.
  destruct (match_and_consume (is_id TCommonVariablePrefix) s) as [[p s1]|] eqn:E1; [|cbn; lia].
  apply mac_sz in E1.
  destruct (match_and_consume (fun t => is_word (tspell t)) s1) as [[w s2]|] eqn:E2; [|exact I].
  apply mac_sz in E2. cbn. lia.
Qed.

Lemma is_capitalized_word_nopure t : nopure (is_capitalized_word t).
Proof. unfold is_capitalized_word. destruct (tid t); try exact I. destruct (tspell t); exact I. Qed.

Lemma capitalized_words_nof : forall fuel s names acc,
  (sz s < fuel)%nat -> nof (sz s) (capitalized_words fuel s names acc).
Proof.
  induction fuel as [|f IH]; intros s names acc Hf; [lia|]. cbn [capitalized_words].
  destruct (current s) as [t|]; [|cbn; lia].
  apply nof_bind_pure; [apply is_capitalized_word_nopure|]. intros b. destruct b; [|cbn; lia].
  destruct (advance s) as [[t' s']|] eqn:E; [|cbn; lia].
  apply advance_sz in E. eapply nof_le; [|apply IH; lia]. lia.
Qed.

Lemma parse_capitalized_identifier_nof s : nof (sz s) (parse_capitalized_identifier prof s).
Proof.
  unfold parse_capitalized_identifier.
  eapply nof_bind; [apply capitalized_words_nof; unfold sz; lia|].
  intros [names acc] s' Hs. destruct names as [|n [|n2 r]]; [cbn; lia| |];
    (destruct acc; [cbn; lia|destruct prof; exact I]).
Qed.

Lemma parse_variable_name_nof s : nof (sz s) (parse_variable_name prof s).
Proof.
  unfold parse_variable_name.
  eapply nof_bind; [apply parse_common_identifier_nof|]. intros c s1 H1. destruct c; [cbn; lia|].
  eapply nof_bind; [apply parse_capitalized_identifier_nof|]. intros k s2 H2. destruct k; [cbn; lia|].
  unfold parse_simple_identifier. destruct (match_and_consume (is_id TWord) s2) as [[t s3]|] eqn:E; [|cbn; lia].
  apply mac_sz in E. cbn. lia.
Qed.

Lemma parse_identifier_nof s : nof (sz s) (parse_identifier prof s).
Proof.
  unfold parse_identifier.
  eapply nof_bind; [apply parse_variable_name_nof|]. intros v s1 H1. destruct v as [[n r]|]; [cbn; lia|].
  unfold parse_pronoun. destruct (match_and_consume (is_id TPronoun) s1) as [[t s2]|] eqn:E; [|cbn; lia].
  apply mac_sz in E. cbn. lia.
Qed.

(** an identifier that was found consumed at least one token *)
Lemma common_some_strict s x s' : parse_common_identifier s = Ok (Some x, s') -> (sz s' < sz s)%nat.
Proof.
  unfold parse_common_identifier.
  destruct (match_and_consume (is_id TCommonVariablePrefix) s) as [[p s1]|] eqn:E1; [|discriminate].
  apply mac_sz in E1.
  destruct (match_and_consume (fun t => is_word (tspell t)) s1) as [[w s2]|] eqn:E2; [|discriminate].
  apply mac_sz in E2. intro H. injection H as _ <-. lia.
Qed.

Lemma capitalized_words_strict : forall fuel s names acc names' acc' s',
  capitalized_words fuel s names acc = Ok (names', acc', s') ->
  (sz s' <= sz s)%nat /\ (length names < length names' -> sz s' < sz s)%nat.
Proof.
  induction fuel as [|f IH]; intros s names acc names' acc' s' H; cbn [capitalized_words] in H; [discriminate|].
  destruct (current s) as [t|]; [|injection H as <- <- <-; split; lia].
  destruct (is_capitalized_word t) as [b| | | | |]; cbn [bind] in H; try discriminate.
  destruct b; [|injection H as <- <- <-; split; lia].
  destruct (advance s) as [[t' s1]|] eqn:E; [|injection H as <- <- <-; split; lia].
  apply advance_sz in E. destruct (IH _ _ _ _ _ _ H) as [A B]. split; lia.
Qed.

Lemma capitalized_some_strict s x s' : parse_capitalized_identifier prof s = Ok (Some x, s') -> (sz s' < sz s)%nat.
Proof.
  unfold parse_capitalized_identifier. intro H.
  destruct (capitalized_words (S (length (toks s))) s [] None) as [[[names acc] s1]| | | | |] eqn:E; cbn [bind] in H; try discriminate.
  destruct (capitalized_words_strict _ _ _ _ _ _ _ E) as [A B]. cbn [length] in B.
  destruct names as [|n [|n2 r]]; [discriminate| |];
    (destruct acc; [injection H as _ <-; apply B; cbn; lia|destruct prof; discriminate]).
Qed.

Lemma variable_name_some_strict s x s' : parse_variable_name prof s = Ok (Some x, s') -> (sz s' < sz s)%nat.
Proof.
  unfold parse_variable_name. intro H.
  destruct (parse_common_identifier s) as [[c s1]| | | | |] eqn:E1; cbn [bind] in H; try discriminate.
  destruct c as [c|].
  - injection H as <- <-. eapply common_some_strict; eauto.
  - pose proof (parse_common_identifier_nof s) as N1. rewrite E1 in N1. cbn in N1.
    destruct (parse_capitalized_identifier prof s1) as [[k s2]| | | | |] eqn:E2; cbn [bind] in H; try discriminate.
    destruct k as [k|].
    + injection H as <- <-. apply capitalized_some_strict in E2. lia.
    + pose proof (parse_capitalized_identifier_nof s1) as N2. rewrite E2 in N2. cbn in N2.
      unfold parse_simple_identifier in H.
      destruct (match_and_consume (is_id TWord) s2) as [[t s3]|] eqn:E3; [|discriminate].
      apply mac_sz in E3. injection H as _ <-. lia.
Qed.

Lemma expect_identifier_nofs s : nofs (sz s) (expect_identifier prof s).
Proof.
  unfold expect_identifier, parse_identifier.
  destruct (parse_variable_name prof s) as [[v s1]| | | | |] eqn:E; cbn [bind]; try exact I.
  - destruct v as [[n r]|].
    + cbn. eapply variable_name_some_strict; eauto.
    + pose proof (parse_variable_name_nof s) as N. rewrite E in N. cbn in N.
      unfold parse_pronoun. destruct (match_and_consume (is_id TPronoun) s1) as [[t s2]|] eqn:E2; cbn; [|exact I].
      apply mac_sz in E2. lia.
  - pose proof (parse_variable_name_nof s) as N. rewrite E in N. exact N.
  - pose proof (parse_variable_name_nof s) as N. rewrite E in N. exact N.
Qed.

Lemma expect_variable_name_nofs s : nofs (sz s) (expect_variable_name prof s).
Proof.
  unfold expect_variable_name.
  destruct (parse_variable_name prof s) as [[v s1]| | | | |] eqn:E; cbn [bind]; try exact I.
  - destruct v as [[n r]|]; [|exact I]. cbn. eapply variable_name_some_strict; eauto.
  - pose proof (parse_variable_name_nof s) as N. rewrite E in N. exact N.
  - pose proof (parse_variable_name_nof s) as N. rewrite E in N. exact N.
Qed.

Lemma as_variable_name_nopure s i r : nopure (as_variable_name s i r).
Proof. destruct i; exact I. Qed.

Lemma lhs_of_primary_nopure p : nopure (lhs_of_primary p).
Proof. destruct p; exact I. Qed.

Lemma unwrap_op_nopure {A} site (o : option A) : nopure (unwrap_op site o).
Proof. destruct o; exact I. Qed.

(** * Poetic literals *)
Lemma poetic_elems_nof : forall fuel s acc, (sz s < fuel)%nat -> nof (sz s) (poetic_elems fuel s acc).
Proof.
  induction fuel as [|f IH]; intros s acc Hf; [lia|]. cbn [poetic_elems].
  destruct (match_and_consume is_poetic_number_literal_token s) as [[t s1]|] eqn:E; [|cbn; lia].
  apply mac_sz in E.
  assert (Hrec : forall a, nof (sz s) (poetic_elems f s1 a)) by (intro a; eapply nof_le; [|apply IH; lia]; lia).
  assert (Hdef : nof (sz s) (if is_minus_hyphen t
              then match advance s1 with
                   | Some (nt, s2) => if is_word (tspell nt) then poetic_elems f s2 (acc ++ [PESuffix (lit "-" ++ tspell nt)])
                                      else Err (mkPE PUnexpectedToken (PLTok nt))
                   | None => fail s1 PPoeticLiteralEndingWithHyphen
                   end
              else poetic_elems f s1 (acc ++ [PEWord (tspell t)]))).
  { destruct (is_minus_hyphen t); [|apply Hrec].
    destruct (advance s1) as [[nt s2]|] eqn:Ea; [|exact I].
    apply advance_sz in Ea. destruct (is_word (tspell nt)); [|exact I].
    eapply nof_le; [|apply IH; lia]. lia. }
  destruct (tid t); try exact Hdef; apply Hrec.
Qed.

Lemma parse_poetic_number_literal_nof s : nof (sz s) (parse_poetic_number_literal s).
Proof.
  unfold parse_poetic_number_literal. destruct (current_matches is_minus_hyphen s); [exact I|].
  eapply nof_bind; [apply poetic_elems_nof; unfold sz; lia|]. intros el s1 H1. destruct el; [exact I|cbn; lia].
Qed.

Lemma is_current_negative_number_nopure s : nopure (is_current_negative_number prof s).
Proof. unfold is_current_negative_number. destruct (toks s); [destruct prof|]; exact I. Qed.

Lemma drop_until_newline_sz : forall fuel s, (sz (drop_until_newline s fuel) <= sz s)%nat.
Proof.
  induction fuel as [|f IH]; intro s; cbn [drop_until_newline]; [lia|].
  destruct (current s) as [t|]; [|lia].
  assert (H : (sz (match advance s with Some (_, s') => drop_until_newline s' f | None => s end) <= sz s)%nat).
  { destruct (advance s) as [[t' s']|] eqn:E; [|lia]. apply advance_sz in E. specialize (IH s'). lia. }
  destruct (tid t); try exact H; lia.
Qed.

Lemma parse_poetic_string_rhs_nof buf says s : nof (sz s) (parse_poetic_string_rhs buf says s).
Proof.
  unfold parse_poetic_string_rhs.
  pose proof (drop_until_newline_sz (length (toks s)) s) as L.
  set (s1 := drop_until_newline s (length (toks s))) in *.
  destruct (match current s1 with
            | Some e => if boundary_ok buf (tstart says) && boundary_ok buf (tstart e)
                        then slice_bytes buf (tstart says) (tstart e) else None
            | None => if boundary_ok buf (tstart says) then Some (drop_bytes (tstart says) buf) else None
            end) as [text|]; [|exact I].
  destruct (strip_prefix (tspell says) text) as [after|]; [|exact I].
  destruct (strip_prefix (lit " ") after); [cbn; lia|exact I].
Qed.

(** * Combinators: every iteration consumes a token *)
Section CombF.
  Variable next : P expr.
  Variable n : nat.
  Hypothesis next_nof : forall s, (sz s <= n)%nat -> nof (sz s) (next s).

  Lemma list_tail_nof : forall fuel s acc, (sz s <= n)%nat -> (sz s < fuel)%nat -> nof (sz s) (list_tail next fuel s acc).
  Proof.
    induction fuel as [|f IH]; intros s acc Hn Hf; [lia|]. cbn [list_tail].
    destruct (match_and_consume (is_id TComma) s) as [[t s1]|] eqn:E; [|cbn; lia].
    apply mac_sz in E. pose proof (skip_opt_sz (is_id TAnd) s1) as L.
    eapply nof_bind; [apply next_nof; lia|]. intros e s3 H3.
    eapply nof_le; [|apply IH]; lia.
  Qed.

  Lemma parse_expression_list_nof fuel s : (sz s <= n)%nat -> (sz s < fuel)%nat -> nof (sz s) (parse_expression_list next fuel s).
  Proof.
    intros Hn Hf. unfold parse_expression_list.
    eapply nof_bind; [apply next_nof; lia|]. intros first s1 H1.
    destruct (plist s1); [cbn; exact H1|].
    eapply nof_bind; [apply list_tail_nof; unfold sz in *; cbn [toks]; lia|].
    intros r s3 H3. unfold sz in *. cbn [toks] in *. cbn. unfold sz. cbn [toks]. lia.
  Qed.

  Lemma binary_loop_nof ops : forall fuel e s, (sz s <= n)%nat -> (sz s < fuel)%nat -> nof (sz s) (binary_loop next ops fuel e s).
  Proof.
    induction fuel as [|f IH]; intros e s Hn Hf; [lia|]. cbn [binary_loop].
    destruct (match_and_consume (is_one_of ops) s) as [[t s1]|] eqn:E; [|cbn; lia].
    apply mac_sz in E.
    apply nof_bind_pure; [apply unwrap_op_nopure|]. intros op.
    eapply nof_bind; [apply parse_expression_list_nof; lia|]. intros [first r] s2 H2.
    eapply nof_le; [|apply IH]; lia.
  Qed.

  Lemma parse_binary_expression_nof ops fuel s :
    (sz s <= n)%nat -> (sz s < fuel)%nat -> nof (sz s) (parse_binary_expression next ops fuel s).
  Proof.
    intros Hn Hf. unfold parse_binary_expression.
    eapply nof_bind; [apply next_nof; lia|]. intros e s1 H1.
    eapply nof_le; [|apply binary_loop_nof]; lia.
  Qed.
End CombF.

Section ParamsF.
  Context {R : Type}.
  Variable p : P R.
  Variable n : nat.
  Hypothesis p_nof : forall s, (sz s <= n)%nat -> nof (sz s) (p s).

  Lemma param_tail_nof : forall fuel s acc, (sz s <= n)%nat -> (sz s < fuel)%nat -> nof (sz s) (param_tail p fuel s acc).
  Proof.
    induction fuel as [|f IH]; intros s acc Hn Hf; [lia|]. cbn [param_tail].
    destruct (match_and_consume (is_one_of param_seps) s) as [[sep s1]|] eqn:E; [|cbn; lia].
    apply mac_sz in E.
    assert (L : (sz (match tid sep with TComma => skip_opt (is_id TAnd) s1 | _ => s1 end) <= sz s1)%nat)
      by (destruct (tid sep); try lia; apply skip_opt_sz).
    eapply nof_bind; [apply p_nof; lia|]. intros x s3 H3.
    eapply nof_le; [|apply IH]; lia.
  Qed.

  Lemma parse_parameter_list_nof fuel s : (sz s <= n)%nat -> (sz s < fuel)%nat -> nof (sz s) (parse_parameter_list p fuel s).
  Proof.
    intros Hn Hf. unfold parse_parameter_list.
    eapply nof_bind; [apply p_nof; lia|]. intros x s1 H1. eapply nof_le; [|apply param_tail_nof]; lia.
  Qed.
End ParamsF.

Lemma fancy_operator_nof s : nof (sz s) (fancy_operator s).
Proof.
  unfold fancy_operator.
  destruct (match_and_consume (is_id TAs) s) as [[t s1]|] eqn:E1.
  - apply mac_sz in E1.
    eapply nofs_bind; [apply expect_any_nofs|]. intros t2 s2 H2.
    apply nof_bind_pure; [apply unwrap_op_nopure|]. intros op.
    eapply nofs_bind; [apply expect_token_nofs|]. intros t3 s3 H3. cbn. lia.
  - destruct (match_and_consume (is_one_of [TBigger; TSmaller]) s) as [[t s1]|] eqn:E2.
    + apply mac_sz in E2. apply nof_bind_pure; [apply unwrap_op_nopure|]. intros op.
      eapply nofs_bind; [apply expect_token_nofs|]. intros t3 s3 H3. cbn. lia.
    + destruct (match_and_consume (is_id TNot) s) as [[t s1]|] eqn:E3; [apply mac_sz in E3; cbn; lia|cbn; lia].
Qed.

(** * The expression ladder: [12 * tokens + rank] fuel suffices *)
Record EF (f : nat) : Prop := mkEF {
  f_expr : forall n s, (sz s <= n)%nat -> (12 * n + 10 <= f)%nat -> nof (sz s) (parse_expression prof f s);
  f_cmp : forall n s, (sz s <= n)%nat -> (12 * n + 9 <= f)%nat -> nof (sz s) (parse_comparison prof f s);
  f_fancy : forall l n s, (sz s <= n)%nat -> (12 * n + 8 <= f)%nat -> nof (sz s) (parse_fancy prof f l s);
  f_floop : forall e n s, (sz s <= n)%nat -> (12 * n + 1 <= f)%nat -> nof (sz s) (fancy_loop prof f e s);
  f_term : forall n s, (sz s <= n)%nat -> (12 * n + 7 <= f)%nat -> nof (sz s) (parse_term prof f s);
  f_factor : forall n s, (sz s <= n)%nat -> (12 * n + 6 <= f)%nat -> nof (sz s) (parse_factor prof f s);
  f_unary : forall n s, (sz s <= n)%nat -> (12 * n + 5 <= f)%nat -> nof (sz s) (parse_unary prof f s);
  f_primary : forall n s, (sz s <= n)%nat -> (12 * n + 4 <= f)%nat -> nof (sz s) (parse_primary prof f s);
  f_nsp : forall n s, (sz s <= n)%nat -> (12 * n + 3 <= f)%nat -> nof (sz s) (parse_non_subscript_primary prof f s);
  f_sub : forall e n s, (sz s <= n)%nat -> (12 * n + 1 <= f)%nat -> nof (sz s) (subscript_after prof f e s);
  f_ioc : forall n s, (sz s <= n)%nat -> (12 * n + 2 <= f)%nat -> nof (sz s) (parse_identifier_or_call prof f s);
  f_args : forall n s, (sz s <= n)%nat -> (12 * n + 1 <= f)%nat -> nof (sz s) (parse_function_call_args prof f s)
}.

Lemma EF_step f : (forall g, (g < S f)%nat -> EF g) -> EF (S f).
Proof.
  intro IHall. pose proof (IHall f (Nat.lt_succ_diag_r f)) as [He Hc Hfa Hfl Ht Hfac Hu Hp Hn Hs Hi Ha].
  constructor.
  - intros n s Hsz Hf. cbn [parse_expression].
    apply (parse_binary_expression_nof (parse_comparison prof f) n); try lia.
    intros s' Hs'. apply (Hc n); lia.
  - intros n s Hsz Hf. cbn [parse_comparison].
    eapply nof_bind; [apply (Ht n); lia|]. intros e s1 H1.
    destruct (match_and_consume (is_one_of is_ops) s1) as [[t s2]|] eqn:E.
    + apply mac_sz in E.
      eapply nof_bind; [apply (Hfa e n); lia|]. intros e2 s3 H3.
      eapply nof_le; [|apply (Hfl e2 n)]; lia.
    + eapply nof_le; [|apply (binary_loop_nof (parse_term prof f) n)]; try lia.
      intros s' Hs'. apply (Ht n); lia.
  - intros l n s Hsz Hf. cbn [parse_fancy].
    eapply nof_bind; [apply fancy_operator_nof|]. intros op s1 H1.
    eapply nof_bind; [apply (Ht n); lia|]. intros r s2 H2. cbn. lia.
  - intros e n s Hsz Hf. cbn [fancy_loop].
    destruct (match_and_consume (is_one_of is_ops) s) as [[t s1]|] eqn:E; [|cbn; lia].
    apply mac_sz in E.
    eapply nof_bind; [apply (Hfa e (n - 1)%nat); lia|]. intros e2 s2 H2.
    eapply nof_le; [|apply (Hfl e2 (n - 1)%nat)]; lia.
  - intros n s Hsz Hf. cbn [parse_term].
    apply (parse_binary_expression_nof (parse_factor prof f) n); try lia.
    intros s' Hs'. apply (Hfac n); lia.
  - intros n s Hsz Hf. cbn [parse_factor].
    apply (parse_binary_expression_nof (parse_unary prof f) n); try lia.
    intros s' Hs'. apply (Hu n); lia.
  - intros n s Hsz Hf. cbn [parse_unary].
    destruct (match_and_consume (is_one_of [TMinus; TNot]) s) as [[t s1]|] eqn:E.
    + apply mac_sz in E. apply nof_bind_pure; [apply unwrap_op_nopure|]. intros op.
      eapply nof_bind; [apply (Hu (n - 1)%nat); lia|]. intros e s2 H2. cbn. lia.
    + eapply nof_bind; [apply (Hp n); lia|]. intros p s1 H1. cbn. lia.
  - intros n s Hsz Hf. cbn [parse_primary].
    eapply nof_bind; [apply (Hn n); lia|]. intros p s1 H1.
    eapply nof_le; [|apply (Hs p n)]; lia.
  - intros n s Hsz Hf. cbn [parse_non_subscript_primary].
    eapply nof_bind; [apply (Hi n); lia|]. intros io s1 H1.
    destruct io; [cbn; lia|].
    assert (Hroll : nof (sz s) (match match_and_consume (is_id TRoll) s1 with
                       | Some (_, s2) => let* (p1, s3) := parse_primary prof f s2 in Ok (PPop p1, s3)
                       | None => fail s1 PExpectedPrimaryExpression
                       end)).
    { destruct (match_and_consume (is_id TRoll) s1) as [[t s2]|] eqn:E; [|exact I].
      apply mac_sz in E. eapply nof_bind; [apply (Hp (n - 1)%nat); lia|]. intros p s3 H3. cbn. lia. }
    unfold parse_literal_expression. destruct (current s1) as [t|]; [|exact Hroll].
    destruct (literal_of_token (tid t)); [|exact Hroll].
    destruct (advance s1) as [[t' s2]|] eqn:Ea; [|exact Hroll]. apply advance_sz in Ea. cbn. lia.
  - intros e n s Hsz Hf. cbn [subscript_after].
    destruct (match_and_consume (is_id TAt) s) as [[t s1]|] eqn:E; [|cbn; lia].
    apply mac_sz in E.
    eapply nof_bind; [apply (Hn (n - 1)%nat); lia|]. intros sub s2 H2.
    eapply nof_le; [|apply (Hs (PSubscript e sub) (n - 1)%nat)]; lia.
  - intros n s Hsz Hf. cbn [parse_identifier_or_call].
    unfold parse_pronoun. destruct (match_and_consume (is_id TPronoun) s) as [[t s1]|] eqn:E; [apply mac_sz in E; cbn; lia|].
    eapply nof_bind; [apply parse_variable_name_nof|]. intros v s1 H1.
    destruct v as [[nm r]|]; [|cbn; lia].
    destruct (current_matches (is_id TTaking) s1); [|cbn; lia].
    eapply nof_bind; [apply (Ha n); lia|]. intros args s2 H2. cbn. lia.
  - intros n s Hsz Hf. cbn [parse_function_call_args].
    eapply nofs_bind; [apply consume_nofs|]. intros t s1 H1.
    eapply nof_le; [|apply (parse_parameter_list_nof (parse_unary prof f) (n - 1)%nat)]; try lia.
    intros s' Hs'. apply (Hu (n - 1)%nat); lia.
Qed.

Theorem EF_all f : EF f.
Proof.
  induction f as [f IH] using (well_founded_induction lt_wf).
  destruct f as [|f]; [|apply EF_step; exact IH].
  constructor; intros; exfalso; lia.
Qed.

(** a statement that starts by consuming its keyword: the rest only has to be [nof] *)
Lemma after_consume {A} m s (k : token * pstate -> pres (A * pstate)) :
  (forall t s1, (sz s1 < sz s)%nat -> nof (sz s1) (k (t, s1))) ->
  nofs (sz s) (bind (consume prof m s) k).
Proof.
  intro Hk. pose proof (consume_nofs m s) as N.
  destruct (consume prof m s) as [[t s1]| | | | |]; cbn [bind nofs] in *; auto.
  apply (nofs_of_nof (sz s1)); [lia|]. apply Hk. lia.
Qed.

(** * Simple statements: with [12 * tokens + 10] fuel none runs out, and each consumes a token *)
Section Stmts.
Variable f n : nat.
Hypothesis Hfuel : (12 * n + 10 <= f)%nat.

Lemma expr_nof s : (sz s <= n)%nat -> nof (sz s) (parse_expression prof f s).
Proof. intro H. apply (f_expr f (EF_all f) n); lia. Qed.
Lemma primary_nof s : (sz s <= n)%nat -> nof (sz s) (parse_primary prof f s).
Proof. intro H. apply (f_primary f (EF_all f) n); lia. Qed.
Lemma sub_nof e s : (sz s <= n)%nat -> nof (sz s) (subscript_after prof f e s).
Proof. intro H. apply (f_sub f (EF_all f) e n); lia. Qed.

Lemma toplevel_list_nof s : (sz s <= n)%nat -> nof (sz s) (parse_toplevel_expression_list prof f s).
Proof.
  intro H. unfold parse_toplevel_expression_list. apply (parse_expression_list_nof (parse_expression prof f) n); try lia.
  intros s' Hs'. apply expr_nof; lia.
Qed.

Lemma lhs_with_nof i r s : (sz s <= n)%nat -> nof (sz s) (parse_assignment_lhs_with prof f i r s).
Proof.
  intro H. unfold parse_assignment_lhs_with.
  eapply nof_bind; [apply sub_nof; lia|]. intros p s1 H1.
  apply nof_bind_pure; [apply lhs_of_primary_nopure|]. intros l. cbn. lia.
Qed.

Lemma lhs_nofs s : (sz s <= n)%nat -> nofs (sz s) (parse_assignment_lhs prof f s).
Proof.
  intro H. unfold parse_assignment_lhs.
  pose proof (expect_identifier_nofs s) as N.
  destruct (expect_identifier prof s) as [[[i r] s1]| | | | |]; cbn [bind nofs] in *; auto.
  pose proof (lhs_with_nof i r s1) as N2. destruct (parse_assignment_lhs_with prof f i r s1) as [[l s2]| | | | |]; cbn in *; auto; try (apply N2; lia).
  specialize (N2 ltac:(lia)). lia.
Qed.

Lemma lhs_nof s : (sz s <= n)%nat -> nof (sz s) (parse_assignment_lhs prof f s).
Proof. intro H. apply nofs_nof. apply lhs_nofs; auto. Qed.

Lemma put_nofs s : (sz s <= n)%nat -> nofs (sz s) (parse_put_assignment prof f s).
Proof.
  intro H. unfold parse_put_assignment.
  pose proof (consume_nofs (is_id TPut) s) as N.
  destruct (consume prof (is_id TPut) s) as [[t s1]| | | | |]; cbn [bind nofs] in *; auto.
  apply (nofs_of_nof (sz s1)); [lia|].
  eapply nof_bind; [apply expr_nof; lia|]. intros v s2 H2.
  eapply nofs_bind; [apply expect_token_nofs|]. intros t3 s3 H3.
  eapply nof_bind; [apply lhs_nof; lia|]. intros d s4 H4. cbn. lia.
Qed.

Lemma let_nofs s : (sz s <= n)%nat -> nofs (sz s) (parse_let_assignment prof f s).
Proof.
  intro H. unfold parse_let_assignment. apply after_consume. intros t0 s1 L1.
  eapply nof_bind; [apply lhs_nof; lia|]. intros d s2 H2.
  eapply nofs_bind; [apply expect_token_nofs|]. intros t3 s3 H3.
  eapply (nof_bind (sz s3)).
  - destruct (match_and_consume (is_one_of [TPlus; TWith; TMinus; TMultiply; TDivide]) s3) as [[t4 s']|] eqn:E; [|cbn; lia].
    apply mac_sz in E. apply nof_bind_pure; [apply unwrap_op_nopure|]. intros o. cbn. lia.
  - intros op s4 H4. eapply nof_bind; [apply toplevel_list_nof; lia|]. intros [first r] s5 H5. cbn. lia.
Qed.

Lemma poetic_number_rhs_nof s : (sz s <= n)%nat -> nof (sz s) (parse_poetic_number_rhs prof f s).
Proof.
  intro H. unfold parse_poetic_number_rhs. destruct (current s) as [t|]; [|exact I].
  apply nof_bind_pure.
  - destruct (is_literal_word (tid t)); [exact I|apply is_current_negative_number_nopure].
  - intros neg. destruct neg.
    + eapply nof_bind; [apply expr_nof; lia|]. intros e s1 H1. cbn. lia.
    + eapply nof_bind; [apply parse_poetic_number_literal_nof|]. intros e s1 H1. cbn. lia.
Qed.

Lemma poetic_assignment_nof buf i r s : (sz s <= n)%nat -> nof (sz s) (parse_poetic_assignment prof buf f i r s).
Proof.
  intro H. unfold parse_poetic_assignment.
  eapply nof_bind; [apply lhs_with_nof; lia|]. intros d s1 H1.
  eapply nofs_bind; [apply expect_any_nofs|]. intros t s2 H2.
  assert (Hstr : nof (sz s) (let* (txt, s3) := parse_poetic_string_rhs buf t s2 in Ok (SPoeticStr d txt, s3))).
  { eapply nof_bind; [apply parse_poetic_string_rhs_nof|]. intros txt s3 H3. cbn. lia. }
  assert (Hnum : nof (sz s) (let* (rhs, s3) := parse_poetic_number_rhs prof f s2 in Ok (SPoeticNum d rhs, s3))).
  { eapply nof_bind; [apply poetic_number_rhs_nof; lia|]. intros rhs s3 H3. cbn. lia. }
  destruct (tid t); first [exact Hnum | exact Hstr].
Qed.

Lemma count_suffix_sz sfx : forall fuel s c, (sz (snd (count_suffix fuel sfx s c)) <= sz s)%nat.
Proof.
  induction fuel as [|g IH]; intros s c; cbn [count_suffix]; [cbn; lia|].
  destruct (match_and_consume (is_id sfx) s) as [[t s1]|] eqn:E; [|cbn; lia].
  apply mac_sz in E. pose proof (skip_opt_sz (is_id TComma) s1) as L.
  specialize (IH (skip_opt (is_id TComma) s1) (c + 1)%Z). lia.
Qed.

Lemma build_knock_nofs b sfx s : nofs (sz s) (parse_build_knock prof b sfx s).
Proof.
  unfold parse_build_knock. apply after_consume. intros t0 s1 L1.
  eapply nofs_bind; [apply expect_identifier_nofs|]. intros [i r] s2 H2.
  eapply nofs_bind; [apply expect_token_nofs|]. intros t3 s3 H3.
  pose proof (skip_opt_sz (is_id TComma) s3) as L4.
  pose proof (count_suffix_sz sfx (length (toks (skip_opt (is_id TComma) s3))) (skip_opt (is_id TComma) s3) 0%Z) as L5.
  destruct (count_suffix (length (toks (skip_opt (is_id TComma) s3))) sfx (skip_opt (is_id TComma) s3) 0%Z) as [extra s5].
  cbn [snd] in L5. cbn. lia.
Qed.

Lemma say_nofs s : (sz s <= n)%nat -> nofs (sz s) (parse_say prof f s).
Proof.
  intro H. unfold parse_say. apply after_consume. intros t0 s1 L1.
  eapply nof_bind; [apply expr_nof; lia|]. intros e s2 H2. cbn. lia.
Qed.

Lemma listen_nofs s : (sz s <= n)%nat -> nofs (sz s) (parse_listen prof f s).
Proof.
  intro H. unfold parse_listen. apply after_consume. intros t0 s1 L1.
  destruct (match_and_consume (is_id TTo) s1) as [[t2 s2]|] eqn:E; [|cbn; lia].
  apply mac_sz in E. eapply nof_bind; [apply lhs_nof; lia|]. intros d s3 H3. cbn. lia.
Qed.

Lemma opt_lhs_after_nof id s : (sz s <= n)%nat -> nof (sz s) (opt_lhs_after prof f id s).
Proof.
  intro H. unfold opt_lhs_after. destruct (match_and_consume (is_id id) s) as [[t s1]|] eqn:E; [|cbn; lia].
  apply mac_sz in E. eapply nof_bind; [apply lhs_nof; lia|]. intros d s2 H2. cbn. lia.
Qed.

Lemma mutation_nofs s : (sz s <= n)%nat -> nofs (sz s) (parse_mutation prof f s).
Proof.
  intro H. unfold parse_mutation. apply after_consume. intros t0 s1 L1.
  apply nof_bind_pure; [apply unwrap_op_nopure|]. intros op.
  eapply nof_bind; [apply primary_nof; lia|]. intros operand s2 H2.
  eapply nof_bind; [apply opt_lhs_after_nof; lia|]. intros dest s3 H3.
  apply nof_bind_pure.
  - destruct dest; [exact I|]. destruct operand; exact I.
  - intros _. eapply (nof_bind (sz s3)).
    + destruct (match_and_consume (is_id TWith) s3) as [[t4 s']|] eqn:E; [|cbn; lia].
      apply mac_sz in E. eapply nof_bind; [apply expr_nof; lia|]. intros e s'' H''. cbn. lia.
    + intros param s4 H4. cbn. lia.
Qed.

Lemma rounding_direction_sz s : (sz (snd (parse_rounding_direction s)) <= sz s)%nat.
Proof.
  unfold parse_rounding_direction. destruct (match_and_consume (is_one_of [TUp; TDown; TRound]) s) as [[t s1]|] eqn:E; [|cbn; lia].
  apply mac_sz in E. cbn. lia.
Qed.

Lemma rounding_nofs s : (sz s <= n)%nat -> nofs (sz s) (parse_rounding prof f s).
Proof.
  intro H. unfold parse_rounding. apply after_consume. intros t0 s1 L1.
  pose proof (rounding_direction_sz s1) as L2. destruct (parse_rounding_direction s1) as [d1 s2]. cbn [snd] in L2.
  eapply nof_bind; [apply expr_nof; lia|]. intros operand s3 H3.
  destruct d1; [cbn; lia|].
  pose proof (rounding_direction_sz s3) as L4. destruct (parse_rounding_direction s3) as [d2 s4]. cbn [snd] in L4.
  destruct d2; [cbn; lia|exact I].
Qed.

Lemma break_nofs s : nofs (sz s) (parse_break prof s).
Proof.
  unfold parse_break. apply after_consume. intros b s1 L1.
  destruct (current s1) as [t1|]; [|cbn; lia].
  apply nof_bind_pure; [apply is_ispelled_nopure|]. intros it. destruct it; [|cbn; lia].
  destruct (advance s1) as [[t2 s2]|] eqn:Ea; [|cbn; lia]. apply advance_sz in Ea.
  eapply nofs_bind; [apply expect_token_nofs|]. intros d s3 H3. cbn. lia.
Qed.

Lemma continue_nofs s : nofs (sz s) (parse_simple_continue prof s).
Proof. unfold parse_simple_continue. apply after_consume. intros b s1 L1. cbn. lia. Qed.

Lemma take_nofs s : nofs (sz s) (parse_take_it_to_the_top prof s).
Proof.
  unfold parse_take_it_to_the_top. apply after_consume. intros t0 s1 L1.
  eapply nof_bind; [apply expect_token_ispelled_nof|]. intros x2 s2 H2.
  eapply nofs_bind; [apply expect_token_nofs|]. intros x3 s3 H3.
  eapply nof_bind; [apply expect_token_ispelled_nof|]. intros x4 s4 H4.
  eapply nofs_bind; [apply expect_token_nofs|]. intros x5 s5 H5. cbn. lia.
Qed.

Lemma push_nofs s : (sz s <= n)%nat -> nofs (sz s) (parse_array_push prof f s).
Proof.
  intro H. unfold parse_array_push. apply after_consume. intros t0 s1 L1.
  eapply nof_bind; [apply primary_nof; lia|]. intros arr s2 H2.
  destruct (match_and_consume (is_one_of [TWith; TLike]) s2) as [[t3 s3]|] eqn:E; [|cbn; lia].
  apply mac_sz in E.
  assert (Hw : nof (sz s1) (let* (first, rest_, s4) := parse_toplevel_expression_list prof f s3 in Ok (SPush arr (Some (PushList first rest_)), s4))).
  { eapply nof_bind; [apply toplevel_list_nof; lia|]. intros [first r] s4 H4. cbn. lia. }
  assert (Hl : nof (sz s1) (let* (el, s4) := parse_poetic_number_literal s3 in Ok (SPush arr (Some (PushLit el)), s4))).
  { eapply nof_bind; [apply parse_poetic_number_literal_nof|]. intros el s4 H4. cbn. lia. }
  destruct (tid t3); first [exact Hw | exact Hl | exact I].
Qed.

Lemma pop_nofs s : (sz s <= n)%nat -> nofs (sz s) (parse_array_pop prof f s).
Proof.
  intro H. unfold parse_array_pop. apply after_consume. intros t0 s1 L1.
  eapply nof_bind; [apply primary_nof; lia|]. intros arr s2 H2.
  eapply nof_bind; [apply opt_lhs_after_nof; lia|]. intros dest s3 H3. cbn. lia.
Qed.

Lemma return_nofs s : (sz s <= n)%nat -> nofs (sz s) (parse_return prof f s).
Proof.
  intro H. unfold parse_return. apply after_consume. intros rt s1 L1.
  apply nof_bind_pure; [apply is_ispelled_nopure|]. intros give.
  assert (L2 : (sz (if give then skip_opt (is_id TBack) s1 else s1) <= sz s1)%nat) by (destruct give; [apply skip_opt_sz|lia]).
  eapply nof_bind; [apply expr_nof; lia|]. intros e s3 H3.
  pose proof (skip_opt_sz (is_id TBack) s3). cbn. lia.
Qed.
End Stmts.

(** * Statements and blocks *)
Definition nof_stmt (s : pstate) (r : pres (option stmt * pstate)) : Prop :=
  match r with
  | Ok (Some _, s') => (sz s' < sz s)%nat
  | Ok (None, s') => s' = s /\ match current s with
                              | None => True
                              | Some t => tid t = TElse \/ tid t = TNewline
                              end
  | OutOfFuel | OverBudget => False
  | _ => True
  end.

Lemma some_nofs s (r : pres (stmt * pstate)) :
  nofs (sz s) r -> nof_stmt s (let* (x, s') := r in Ok (Some x, s')).
Proof. destruct r as [[x s']| | | | |]; cbn; auto. Qed.

Record BF (f : nat) : Prop := mkBF {
  bf_stmt : forall buf n s, (sz s <= n)%nat -> (12 * n + 12 <= f)%nat -> nof_stmt s (parse_statement prof buf f s);
  bf_word : forall buf n s, (sz s <= n)%nat -> (12 * n + 11 <= f)%nat -> nofs (sz s) (parse_statement_starting_with_word prof buf f s);
  bf_fun : forall buf nm nr n s, (sz s <= n)%nat -> (12 * n + 10 <= f)%nat -> nofs (sz s) (parse_function prof buf f nm nr s);
  bf_if : forall buf n s, (sz s <= n)%nat -> (12 * n + 10 <= f)%nat -> nofs (sz s) (parse_if prof buf f s);
  bf_loop : forall buf n s, (sz s <= n)%nat -> (12 * n + 10 <= f)%nat -> nofs (sz s) (parse_loop prof buf f s);
  bf_block : forall buf n s, (sz s <= n)%nat -> (12 * n + 14 <= f)%nat -> nof (sz s) (parse_block prof buf f s);
  bf_fblock : forall buf n s, (sz s <= n)%nat -> (12 * n + 14 <= f)%nat -> nof (sz s) (parse_function_block prof buf f s);
  bf_stmts : forall buf inf acc n s, (sz s <= n)%nat -> (12 * n + 13 <= f)%nat -> nof (sz s) (block_statements prof buf f inf s acc)
}.

Lemma parse_block_S buf f s :
  parse_block prof buf (S f) s =
  match match_and_consume (is_id TNewline) s with
  | Some (_, s1) => Ok (block_new (ploc s) [], s1)
  | None => let* (ss, s1) := block_statements prof buf f false s [] in Ok (block_new (ploc s) ss, s1)
  end.
Proof. reflexivity. Qed.

Lemma block_statements_S buf f inf s acc :
  block_statements prof buf (S f) inf s acc =
  (let* (so, s1) := parse_statement prof buf f s in
   match so with
   | None => Ok (acc, s1)
   | Some st =>
       if inf && is_function_terminator st then Ok (acc ++ [st], s1)
       else let* (_, s2) := expect_eol s1 in block_statements prof buf f inf s2 (acc ++ [st])
   end).
Proof. reflexivity. Qed.

Lemma BF_step f : BF f -> BF (S f).
Proof.
  intros [Hst Hw Hfn Hif Hlp Hb Hfb Hss]. constructor.
  - intros buf n s Hsz Hf. cbn [parse_statement].
    destruct (current s) as [t|] eqn:Ec; [|cbn; rewrite Ec; auto].
    assert (F10 : (12 * n + 10 <= f)%nat) by lia.
    destruct (tid t) eqn:Et; try exact I; try (cbn; rewrite Ec, Et; auto; fail);
      try (apply some_nofs;
           first [ apply (put_nofs f n F10); lia | apply (let_nofs f n F10); lia | apply (Hw buf n); lia
                 | apply (Hif buf n); lia | apply (Hlp buf n); lia | apply (say_nofs f n F10); lia
                 | apply (listen_nofs f n F10); lia | apply (mutation_nofs f n F10); lia
                 | apply (rounding_nofs f n F10); lia | apply (break_nofs f n F10) | apply break_nofs | apply (continue_nofs f n F10) | apply continue_nofs | apply (take_nofs f n F10)
                 | apply (push_nofs f n F10); lia | apply (pop_nofs f n F10); lia | apply (return_nofs f n F10); lia ]).
    + first [pose proof (build_knock_nofs f n F10 TBuild TUp s) as N | pose proof (build_knock_nofs TBuild TUp s) as N].
      destruct (parse_build_knock prof TBuild TUp s) as [[[[i r] k] s1]| | | | |]; cbn in *; auto.
    + first [pose proof (build_knock_nofs f n F10 TKnock TDown s) as N | pose proof (build_knock_nofs TKnock TDown s) as N].
      destruct (parse_build_knock prof TKnock TDown s) as [[[[i r] k] s1]| | | | |]; cbn in *; auto.
  - intros buf n s Hsz Hf. cbn [parse_statement_starting_with_word].
    pose proof (expect_identifier_nofs s) as N.
    destruct (expect_identifier prof s) as [[[i r] s1]| | | | |]; cbn [bind nofs] in *; auto.
    apply (nofs_of_nof (sz s1)); [lia|].
    assert (F10 : (12 * (n - 1) + 10 <= f)%nat) by lia.
    assert (Hpo : nof (sz s1) (parse_poetic_assignment prof buf f i r s1)) by (apply (poetic_assignment_nof f (n - 1) F10); lia).
    destruct (current s1) as [t|]; [|exact Hpo].
    destruct (tid t); try exact Hpo.
    + apply nof_bind_pure; [apply as_variable_name_nopure|]. intros [nm nr].
      apply nofs_nof. apply (Hfn buf nm nr (n - 1)%nat); lia.
    + apply nof_bind_pure; [apply as_variable_name_nopure|]. intros [nm nr].
      eapply nof_bind; [apply (f_args f (EF_all f) (n - 1)%nat); lia|]. intros args s2 H2. cbn. lia.
  - intros buf nm nr n s Hsz Hf. cbn [parse_function]. apply after_consume. intros t0 s1 L1.
    eapply nof_bind.
    + apply (parse_parameter_list_nof (fun st => let* (v, r, st') := expect_variable_name prof st in Ok ((v, r), st')) n); try lia.
      intros st Hst0. pose proof (expect_variable_name_nofs st) as N.
      destruct (expect_variable_name prof st) as [[[v r] st']| | | | |]; cbn in *; auto. lia.
    + intros params s2 H2.
      eapply nof_bind; [apply expect_eol_nof|]. intros x s3 H3.
      eapply nof_bind; [apply (Hfb buf (n - 1)%nat); lia|]. intros body s4 H4. cbn. lia.
  - intros buf n s Hsz Hf. cbn [parse_if]. apply after_consume. intros t0 s1 L1.
    eapply nof_bind; [apply (f_expr f (EF_all f) (n - 1)%nat); lia|]. intros c s2 H2.
    eapply nof_bind; [apply expect_eol_nof|]. intros x s3 H3.
    eapply nof_bind; [apply (Hb buf (n - 1)%nat); lia|]. intros th s4 H4.
    destruct (match_and_consume (is_id TElse) s4) as [[t5 s5]|] eqn:E; [|cbn; lia].
    apply mac_sz in E.
    eapply nof_bind; [apply expect_token_or_end_nof|]. intros x6 s6 H6.
    eapply nof_bind; [apply (Hb buf (n - 1)%nat); lia|]. intros el s7 H7. cbn. lia.
  - intros buf n s Hsz Hf. cbn [parse_loop]. apply after_consume. intros t0 s1 L1.
    eapply nof_bind; [apply (f_expr f (EF_all f) (n - 1)%nat); lia|]. intros c s2 H2.
    eapply nof_bind; [apply expect_eol_nof|]. intros x s3 H3.
    eapply nof_bind; [apply (Hb buf (n - 1)%nat); lia|]. intros b s4 H4.
    destruct (tid t0); cbn; lia.
  - intros buf n s Hsz Hf. cbn [parse_block].
    destruct (match_and_consume (is_id TNewline) s) as [[t s1]|] eqn:E; [apply mac_sz in E; cbn; lia|].
    eapply nof_bind; [apply (Hss buf false [] n); lia|]. intros ss s1 H1. cbn. lia.
  - intros buf n s Hsz Hf. cbn [parse_function_block].
    destruct (match_and_consume (is_id TNewline) s) as [[t s1]|] eqn:E; [apply mac_sz in E; cbn; lia|].
    eapply nof_bind; [apply (Hss buf true [] n); lia|]. intros ss s1 H1. cbn. lia.
  - intros buf inf acc n s Hsz Hf. rewrite block_statements_S.
    pose proof (Hst buf n s Hsz ltac:(lia)) as N.
    destruct (parse_statement prof buf f s) as [[[st|] s1]| | | | |]; cbn [bind nof_stmt] in *; auto.
    + destruct (inf && is_function_terminator st); [cbn; lia|].
      eapply nof_bind; [apply expect_eol_nof|]. intros x s2 H2.
      eapply nof_le; [|apply (Hss buf inf (acc ++ [st]) (n - 1)%nat)]; lia.
    + destruct N as [-> _]. cbn. lia.
Qed.

Lemma BF_0 : BF 0.
Proof. constructor; intros; exfalso; lia. Qed.

Theorem BF_all f : BF f.
Proof. induction f; [apply BF_0|apply BF_step; auto]. Qed.

(** at the top level a block makes progress unless it stopped in front of an `else` *)
Lemma top_block_progress buf f n s t :
  current s = Some t -> (sz s <= n)%nat -> (12 * n + 14 <= S f)%nat ->
  match parse_block prof buf (S f) s with
  | Ok (_, s1) => (sz s1 < sz s)%nat \/ current_matches (is_id TElse) s1 = true
  | OutOfFuel | OverBudget => False
  | _ => True
  end.
Proof.
  intros Hc Hsz Hf. rewrite parse_block_S.
  destruct (match_and_consume (is_id TNewline) s) as [[t' s1]|] eqn:E; [apply mac_sz in E; cbn; left; lia|].
  destruct f as [|f']; [lia|]. rewrite block_statements_S.
  pose proof (bf_stmt f' (BF_all f') buf n s Hsz ltac:(lia)) as N.
  destruct (parse_statement prof buf f' s) as [[[st|] s1]| | | | |]; cbn [bind nof_stmt] in *; auto.
  - destruct (false && is_function_terminator st); [cbn; left; lia|].
    pose proof (expect_eol_nof s1) as N2.
    destruct (expect_eol s1) as [[x s2]| | | | |]; cbn [bind nof] in *; auto.
    pose proof (bf_stmts f' (BF_all f') buf false ([] ++ [st]) (n - 1)%nat s2 ltac:(lia) ltac:(lia)) as N3.
    destruct (block_statements prof buf f' false s2 ([] ++ [st])) as [[ss s3]| | | | |]; cbn in *; auto. left. lia.
  - destruct N as [-> N]. rewrite Hc in N. cbn. destruct N as [Ht|Ht].
    + right. unfold current_matches. rewrite Hc. unfold is_id. rewrite Ht. reflexivity.
    + exfalso. unfold match_and_consume in E. rewrite Hc in E. unfold is_id in E. rewrite Ht in E. cbn in E.
      unfold advance in E. unfold current in Hc. destruct (toks s); discriminate.
Qed.

Lemma parse_blocks_fuel buf : forall fuel n s acc,
  (sz s <= n)%nat -> (12 * n + 15 <= fuel)%nat ->
  match parse_blocks prof buf fuel s acc with OutOfFuel | OverBudget => False | _ => True end.
Proof.
  induction fuel as [|f IH]; intros n s acc Hsz Hf; [lia|]. cbn [parse_blocks].
  destruct (current s) as [t|] eqn:Ec; [|exact I].
  pose proof (top_block_progress buf f n s t Ec Hsz ltac:(lia)) as N.
  destruct (parse_block prof buf (S f) s) as [[b s1]| | | | |]; cbn [bind] in *; auto.
  destruct (current_matches (is_id TElse) s1) eqn:Em; [exact I|].
  destruct N as [N|N]; [|congruence].
  pose proof (current_sz s t Ec).
  apply (IH (n - 1)%nat); lia.
Qed.
End Fuel.

(** ** the whole front end never runs out of fuel *)
Theorem parse_fuel_suffices prof src :
  match parse prof src with ParseOutOfFuel => lex prof src = OutOfFuel \/ lex prof src = OverBudget | _ => True end.
Proof.
  unfold parse. destruct (lex prof src) as [pts| | | | |] eqn:El; auto.
  set (ts := drop_comments pts).
  pose proof (parse_blocks_fuel prof src (parse_fuel (length ts)) (length ts) (mkPS ts 1 (mkLoc 1 0) false) []) as H.
  assert (Hf : (12 * length ts + 15 <= parse_fuel (length ts))%nat) by (unfold parse_fuel; lia).
  specialize (H ltac:(unfold sz; cbn; lia) Hf).
  destruct (parse_blocks prof src (parse_fuel (length ts)) (mkPS ts 1 (mkLoc 1 0) false) []); auto; contradiction.
Qed.
