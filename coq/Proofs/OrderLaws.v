(** C10: nothing observable depends on the order in which a dictionary (a HashMap in Rust, an
    association list in the model) holds its entries. *)
From Coq Require Import List ZArith NArith Bool Lia Sorting.Permutation Sorting.Sorted.
From RRSS Require Import Base.Outcome Base.Chars Base.F64 Base.F64Text Exec.Val Proofs.ValInd.
Import ListNotations.

(** * Sorting is a function of the multiset *)
Section SortPerm.
  Context {A : Type} (cmp : A -> A -> comparison).
  Definition cle (a b : A) : Prop := cmp a b <> Gt.
  Hypothesis cmp_antisym : forall a b, cmp b a = CompOpp (cmp a b).
  Hypothesis cle_trans : forall a b c, cle a b -> cle b c -> cle a c.

  Lemma cle_total a b : cle a b \/ cle b a.
  Proof. unfold cle. rewrite (cmp_antisym a b). destruct (cmp a b); cbn; [left|left|right]; discriminate. Qed.

  Lemma insert_perm x l : Permutation (x :: l) (insert_sorted cmp x l).
  Proof.
    induction l as [|y t IH]; cbn; auto.
    destruct (cmp x y); auto. eapply perm_trans; [apply perm_swap|]. constructor. exact IH.
  Qed.

  Lemma isort_perm l : Permutation l (isort cmp l).
  Proof. induction l as [|x t IH]; cbn; auto. eapply perm_trans; [|apply insert_perm]. constructor. exact IH. Qed.

  Lemma insert_sorted_sorted x l : StronglySorted cle l -> StronglySorted cle (insert_sorted cmp x l).
  Proof.
    induction l as [|y t IH]; intro H; cbn.
    - repeat constructor.
    - inversion H as [|? ? Hs Hf]; subst.
      destruct (cmp x y) eqn:E.
      + constructor; auto. constructor; [unfold cle; congruence|].
        rewrite Forall_forall in *. intros z Hz. apply cle_trans with y; [unfold cle; congruence|auto].
      + constructor; auto. constructor; [unfold cle; congruence|].
        rewrite Forall_forall in *. intros z Hz. apply cle_trans with y; [unfold cle; congruence|auto].
      + constructor; auto. rewrite Forall_forall in *. intros z Hz.
        apply (Permutation_in _ (Permutation_sym (insert_perm x t))) in Hz. destruct Hz as [<-|Hz]; auto.
        unfold cle. rewrite (cmp_antisym x y), E. discriminate.
  Qed.

  Lemma isort_sorted l : StronglySorted cle (isort cmp l).
  Proof. induction l as [|x t IH]; cbn; [constructor|]. apply insert_sorted_sorted; auto. Qed.

  Lemma sorted_perm_eq l1 : forall l2,
    StronglySorted cle l1 -> StronglySorted cle l2 -> Permutation l1 l2 ->
    (forall a b, In a l1 -> In b l1 -> cle a b -> cle b a -> a = b) -> l1 = l2.
  Proof.
    induction l1 as [|x t IH]; intros l2 S1 S2 Hp Hanti.
    - apply Permutation_nil in Hp. auto.
    - destruct l2 as [|y u]; [apply Permutation_sym, Permutation_nil in Hp; discriminate|].
      inversion S1 as [|? ? Hs1 Hf1]; subst. inversion S2 as [|? ? Hs2 Hf2]; subst.
      assert (Hxy : x = y).
      { assert (Hy : In y (x :: t)) by (apply (Permutation_in _ (Permutation_sym Hp)); left; auto).
        assert (Hx : In x (y :: u)) by (apply (Permutation_in _ Hp); left; auto).
        destruct Hy as [Hy|Hy]; auto. destruct Hx as [Hx|Hx]; auto.
        rewrite Forall_forall in Hf1, Hf2. apply Hanti; [left; auto|right; auto|auto|auto]. }
      subst y. f_equal. apply IH; auto.
      + eapply Permutation_cons_inv; eauto.
      + intros a b Ha Hb. apply Hanti; right; auto.
  Qed.

  Theorem isort_perm_invariant l1 l2 :
    Permutation l1 l2 ->
    (forall a b, In a l1 -> In b l1 -> cle a b -> cle b a -> a = b) ->
    isort cmp l1 = isort cmp l2.
  Proof.
    intros Hp Hanti. apply sorted_perm_eq; try apply isort_sorted.
    - eapply perm_trans; [apply Permutation_sym, isort_perm|]. eapply perm_trans; [exact Hp|apply isort_perm].
    - intros a b Ha Hb. apply Hanti; eapply Permutation_in; try apply Permutation_sym, isort_perm; auto.
  Qed.
End SortPerm.

(** * The string order is a total order *)
Lemma str_compare_trans_le a : forall b c,
  str_compare a b <> Gt -> str_compare b c <> Gt -> str_compare a c <> Gt.
Proof.
  induction a as [|x a IH]; intros b c H1 H2.
  - destruct c; cbn; discriminate.
  - destruct b as [|y b]; [cbn in H1; contradiction|]. destruct c as [|z c]; [cbn in H2; contradiction|].
    cbn in *. destruct (x ?= y)%N eqn:E1; try contradiction.
    + apply N.compare_eq in E1. subst. destruct (y ?= z)%N eqn:E2; try contradiction; try discriminate.
      eapply IH; eauto.
    + destruct (y ?= z)%N eqn:E2; try contradiction.
      * apply N.compare_eq in E2. subst. rewrite E1. discriminate.
      * assert (H : (x ?= z)%N = Lt).
        { apply N.compare_lt_iff. eapply N.lt_trans; apply N.compare_lt_iff; eauto. }
        rewrite H. discriminate.
Qed.

Lemma str_compare_le_antisym a b : str_compare a b <> Gt -> str_compare b a <> Gt -> a = b.
Proof.
  intros H1 H2. rewrite (str_compare_antisym a b) in H2.
  destruct (str_compare a b) eqn:E; cbn in *; try contradiction.
  apply str_compare_eq in E. auto.
Qed.

(** sorting a list of strings gives the same result for every arrangement of the list *)
Theorem sorted_strings_order_independent l1 l2 :
  Permutation l1 l2 -> isort str_compare l1 = isort str_compare l2.
Proof.
  intro H. apply isort_perm_invariant; auto.
  - apply str_compare_antisym.
  - intros a b c. apply str_compare_trans_le.
  - intros a b _ _. apply str_compare_le_antisym.
Qed.

(** * Display does not depend on the order of the dictionary *)
Definition render_entry (kv : dkey * val) : str := dkey_display (fst kv) ++ lit ": " ++ v_display (snd kv).

Lemma v_display_arr a d :
  v_display (VArr a d) =
  lit "[" ++ str_join (lit ", ") (map v_display a ++ isort str_compare (map render_entry d)) ++ lit "]".
Proof.
  cbn [v_display].
  assert (H2 : forall l, (fix go (l : list (dkey * val)) : list str :=
        match l with
        | [] => []
        | (k, x) :: t => (dkey_display k ++ lit ": " ++ v_display x) :: go t
        end) l = map render_entry l).
  { induction l as [|[k v] t IH]; [reflexivity|]. cbn [map]. rewrite <- IH. reflexivity. }
  rewrite H2. reflexivity.
Qed.

Theorem display_order_independent a d d' :
  Permutation d d' -> v_display (VArr a d) = v_display (VArr a d').
Proof.
  intro H. rewrite !v_display_arr. do 4 f_equal.
  apply sorted_strings_order_independent. apply Permutation_map. exact H.
Qed.

(** and depends on the elements only through their own displays (so the statement nests) *)
Theorem display_congruence a a' d d' :
  map v_display a = map v_display a' -> map render_entry d = map render_entry d' ->
  v_display (VArr a d) = v_display (VArr a' d').
Proof. intros H1 H2. rewrite !v_display_arr, H1, H2. reflexivity. Qed.

(** * Lookups and equality see the dictionary as a finite map *)
Lemma dict_get_perm k d d' : NoDup (map fst d) -> Permutation d d' -> dict_get k d = dict_get k d'.
Proof.
  intros Hn Hp.
  assert (Hn' : NoDup (map fst d')) by (eapply Permutation_NoDup; [apply Permutation_map; exact Hp|auto]).
  destruct (dict_get k d) as [v|] eqn:E.
  - symmetry. apply dict_get_in_nodup; auto. eapply Permutation_in; [exact Hp|]. apply dict_get_in; auto.
  - symmetry. apply dict_get_none. apply dict_get_none in E. intro Hin. apply E.
    eapply Permutation_in; [apply Permutation_sym, Permutation_map; exact Hp|auto].
Qed.

Lemma forallb_perm {A} (f : A -> bool) l l' : Permutation l l' -> forallb f l = forallb f l'.
Proof.
  induction 1; cbn; auto.
  - congruence.
  - destruct (f x), (f y); auto.
  - congruence.
Qed.

(** the key order of the model's [val_iter] (what `join` walks) is a total order on keys *)
Lemma dkey_compare_antisym a b : dkey_compare b a = CompOpp (dkey_compare a b).
Proof.
  destruct a as [| |x|x], b as [| |y|y]; cbn; auto.
  - destruct x, y; reflexivity.
  - apply str_compare_antisym.
Qed.

Lemma dkey_compare_trans_le a b c :
  dkey_compare a b <> Gt -> dkey_compare b c <> Gt -> dkey_compare a c <> Gt.
Proof.
  destruct a as [| |x|x], b as [| |y|y], c as [| |z|z]; cbn; intros H1 H2; try discriminate; try contradiction; auto.
  - destruct x, y, z; cbn in *; try discriminate; try contradiction; auto.
  - eapply str_compare_trans_le; eauto.
Qed.

Lemma dkey_compare_le_antisym a b : dkey_compare a b <> Gt -> dkey_compare b a <> Gt -> a = b.
Proof.
  destruct a as [| |x|x], b as [| |y|y]; cbn; intros H1 H2; try discriminate; try contradiction; auto.
  - destruct x, y; cbn in *; try contradiction; auto.
  - f_equal. apply str_compare_le_antisym; auto.
Qed.

(** `join` (after the F9 repair) walks the dictionary in key order: the sequence of values it sees
    is the same for every arrangement of the table *)
Theorem val_iter_order_independent a d d' :
  NoDup (map fst d) -> Permutation d d' -> val_iter a d = val_iter a d'.
Proof.
  intros Hn Hp. unfold val_iter, dict_sorted. do 2 f_equal.
  apply isort_perm_invariant; auto.
  - intros x y. apply dkey_compare_antisym.
  - intros x y z. apply dkey_compare_trans_le.
  - intros [k1 v1] [k2 v2] H1 H2 L1 L2. cbn in L1, L2.
    assert (k1 = k2) by (apply dkey_compare_le_antisym; auto). subst k2.
    f_equal. pose proof (dict_get_in_nodup _ _ _ Hn H1) as G1. pose proof (dict_get_in_nodup _ _ _ Hn H2) as G2. congruence.
Qed.

Theorem join_order_independent a d d' delim :
  NoDup (map fst d) -> Permutation d d' -> v_join (VArr a d) delim = v_join (VArr a d') delim.
Proof.
  intros Hn Hp. unfold v_join.
  assert (Hl : length d = length d') by (apply Permutation_length; auto).
  rewrite (val_iter_order_independent a d d' Hn Hp).
  destruct a; destruct d, d'; cbn in Hl; try discriminate; reflexivity.
Qed.

(** equality of arrays does not depend on the arrangement of either dictionary *)
Theorem val_eq_order_independent_r xa xd ya yd yd' :
  NoDup (map fst yd) -> Permutation yd yd' ->
  val_eq (VArr xa xd) (VArr ya yd) = val_eq (VArr xa xd) (VArr ya yd').
Proof.
  intros Hn Hp. cbn [val_eq].
  assert (Hl : len yd = len yd') by (unfold len; rewrite (Permutation_length Hp); auto).
  rewrite Hl. f_equal.
  induction xd as [|[k v] t IH]; cbn; auto. rewrite (dict_get_perm k yd yd' Hn Hp), IH. reflexivity.
Qed.
