From Coq Require Import List Arith Lia Bool.
Import ListNotations.

Inductive tok := TNum (n : nat) | TPlus | TTimes | TMinus | TComma.
Inductive expr := Num (n : nat) | Neg (e : expr) | Bin (op : tok) (l : expr) (r : list expr).
Inductive res (A : Type) := Ok (a : A) | Err | OutOfFuel.
Arguments Ok {A}. Arguments Err {A}. Arguments OutOfFuel {A}.
Definition bind {A B} (r : res A) (f : A -> res B) : res B :=
  match r with Ok a => f a | Err => Err | OutOfFuel => OutOfFuel end.
Notation "'let*' ' p ':=' r 'in' k" := (bind r (fun p => k)) (at level 200, p pattern).
Definition tok_eqb (a b : tok) : bool :=
  match a, b with TPlus, TPlus | TTimes, TTimes | TMinus, TMinus | TComma, TComma => true | _, _ => false end.
Definition isop (ops : list tok) (t : tok) := existsb (tok_eqb t) ops.
Definition st := (list tok * bool)%type.   (* tokens, parsing_list *)

Fixpoint p_unary (fuel : nat) (s : st) : res (expr * st) :=
  match fuel with O => OutOfFuel | S f =>
    match fst s with
    | TMinus :: r => let* '(e, s') := p_unary f (r, snd s) in Ok (Neg e, s')
    | TNum n :: r => Ok (Num n, (r, snd s))
    | _ => Err
    end
  end.

Section Level.
  Variable next : nat -> st -> res (expr * st).
  Variable ops : list tok.
  Fixpoint p_list_rest (fuel : nat) (s : st) : res (list expr * st) :=
    match fuel with O => OutOfFuel | S f =>
      match fst s with
      | TComma :: r =>
          let* '(e, s1) := next f (r, snd s) in
          let* '(es, s2) := p_list_rest f s1 in Ok (e :: es, s2)
      | _ => Ok ([], s)
      end
    end.
  (* fixed flag discipline: save and restore *)
  Definition p_list (fuel : nat) (s : st) : res (list expr * st) :=
    match fuel with O => OutOfFuel | S f =>
      let* '(e, s1) := next f s in
      let outer := snd s in
      if outer then Ok ([e], (fst s1, outer))
      else let* '(es, s2) := p_list_rest f (fst s1, true) in
           Ok (e :: es, (fst s2, outer))
    end.
  Fixpoint p_loop (fuel : nat) (acc : expr) (s : st) : res (expr * st) :=
    match fuel with O => OutOfFuel | S f =>
      match fst s with
      | t :: r => if isop ops t then
                    let* '(es, s1) := p_list f (r, snd s) in
                    p_loop f (Bin t acc es) s1
                  else Ok (acc, s)
      | [] => Ok (acc, s)
      end
    end.
  Definition p_bin (fuel : nat) (s : st) : res (expr * st) :=
    match fuel with O => OutOfFuel | S f =>
      let* '(e, s1) := next f s in p_loop f e s1
    end.
End Level.

Definition fops := [TTimes].
Definition tops := [TPlus; TMinus].
Definition p_factor := p_bin p_unary fops.
Definition p_term := p_bin p_factor tops.

(* ---------- printer ---------- *)
Fixpoint pr (e : expr) : list tok :=
  match e with
  | Num n => [TNum n]
  | Neg e => TMinus :: pr e
  | Bin op l rs => pr l ++ op :: (fix go (rs : list expr) := match rs with
                                   | [] => [] | [r] => pr r | r :: rs' => pr r ++ TComma :: go rs' end) rs
  end.
Definition pr_list := fix go (rs : list expr) := match rs with
                                   | [] => [] | [r] => pr r | r :: rs' => pr r ++ TComma :: go rs' end.
Lemma pr_bin op l rs : pr (Bin op l rs) = pr l ++ op :: pr_list rs. Proof. reflexivity. Qed.

(* ---------- well-formedness (levels + flag discipline) ---------- *)
Inductive wf_unary : expr -> Prop :=
| WU_num n : wf_unary (Num n)
| WU_neg e : wf_unary e -> wf_unary (Neg e).

Definition is_bin (e : expr) := match e with Bin _ _ _ => true | _ => false end.

(* wf_lvl next_wf ops inl e : e is a left-assoc chain at this level, operands at the next level *)
Section WfLevel.
  Variable wf_next : bool -> expr -> Prop.   (* flag -> operand wf *)
  Variable ops : list tok.
  Inductive wf_list : bool -> list expr -> Prop :=
  | WL_single inl r : wf_next inl r -> wf_list inl [r]
  | WL_multi r1 r2 rs : wf_next false r1 -> is_bin r1 = false ->
        Forall (wf_next true) (r2 :: rs) -> wf_list false (r1 :: r2 :: rs).
  Inductive wf_lvl : bool -> expr -> Prop :=
  | WLv_next inl e : wf_next inl e -> wf_lvl inl e
  | WLv_bin inl op l rs : isop ops op = true -> wf_lvl inl l -> wf_list inl rs -> wf_lvl inl (Bin op l rs).
End WfLevel.

Definition wf_factor := wf_lvl (fun _ e => wf_unary e) fops.
Definition wf_term := wf_lvl wf_factor tops.

(* ---------- fuel monotonicity (sample: unary) ---------- *)
Lemma p_unary_mono f : forall f' s r, p_unary f s = Ok r -> f <= f' -> p_unary f' s = Ok r.
Proof.
  induction f as [|f IH]; intros f' s r H Hle; [discriminate|].
  destruct f' as [|f']; [lia|]. cbn in *.
  destruct (fst s) as [|[n| | | |] tl]; try discriminate; auto.
  destruct (p_unary f (tl, snd s)) as [[e s']| |] eqn:E; cbn in H; try discriminate.
  rewrite (IH f' _ _ E); [exact H | lia].
Qed.

(* ---------- round trip, unary level ---------- *)
Definition hd_not (bad : list tok) (ts : list tok) : Prop :=
  match ts with [] => True | t :: _ => isop bad t = false end.

Lemma rt_unary e : wf_unary e -> forall rest inl,
  exists f0, forall f, f0 <= f -> p_unary f (pr e ++ rest, inl) = Ok (e, (rest, inl)).
Proof.
  induction 1 as [n|e He IH]; intros rest inl.
  - exists 1. intros [|f] Hf; [lia|]. reflexivity.
  - destruct (IH rest inl) as [f0 H0]. exists (S f0). intros [|f] Hf; [lia|].
    cbn. rewrite H0 by lia. reflexivity.
Qed.

(* ---------- generic level round trip ---------- *)
Definition Evals {A} (p : nat -> res A) (r : A) : Prop := exists f0, forall f, f0 <= f -> p f = Ok r.

Definition follow (bad : list tok) (inl : bool) (e : expr) (rest : list tok) : Prop :=
  hd_not bad rest /\ (is_bin e = true -> inl = false -> hd_not [TComma] rest).

Lemma hd_not_cons_comma dops rest : hd_not dops rest -> hd_not [TComma] rest -> hd_not (TComma :: dops) rest.
Proof. destruct rest as [|t tl]; [auto|]. unfold hd_not, isop. cbn. intros H1 H2.
       rewrite orb_false_r in H2. rewrite H2. exact H1. Qed.

Section LevelRT.
  Variable next : nat -> st -> res (expr * st).
  Variable wf_next : bool -> expr -> Prop.
  Variable ops dops : list tok.      (* this level's operators; operators of deeper levels *)
  Hypothesis ops_disj : forall t, isop ops t = true -> isop dops t = false /\ tok_eqb t TComma = false.
  Hypothesis next_rt : forall inl e, wf_next inl e -> forall rest, follow dops inl e rest ->
      Evals (fun f => next f (pr e ++ rest, inl)) (e, (rest, inl)).
  Hypothesis dops_no_comma : isop dops TComma = false.

  Lemma app_assoc' (a b c : list tok) : (a ++ b) ++ c = a ++ b ++ c. Proof. apply eq_sym, app_assoc. Qed.

  (* elements 2..n of a list, parsed with the flag set *)
  Lemma rt_list_rest rs : Forall (wf_next true) rs -> forall rest,
      hd_not (TComma :: dops) rest ->
      Evals (fun f => p_list_rest next f
               ((fix go rs := match rs with [] => [] | r :: rs' => TComma :: pr r ++ go rs' end) rs ++ rest, true))
            (rs, (rest, true)).
  Proof.
    induction 1 as [|r rs Hr Hrs IH]; intros rest Hrest.
    - exists 1. intros [|f] Hf; [lia|]. cbn. destruct rest as [|t tl]; [reflexivity|].
      cbn in Hrest. destruct t; try reflexivity. cbn in Hrest. discriminate.
    - destruct (IH rest Hrest) as [f2 H2].
      set (tail := (fix go rs := match rs with [] => [] | r :: rs' => TComma :: pr r ++ go rs' end) rs ++ rest) in *.
      assert (Hfol : follow dops true r tail).
      { split.
        - destruct rs as [|r' rs']; cbn in tail; subst tail.
          + cbn. destruct rest as [|t tl]; [exact I|]. cbn in *. apply orb_false_iff in Hrest. tauto.
          + cbn. exact dops_no_comma.
        - intros _ Hc. discriminate. }
      destruct (next_rt true r Hr tail Hfol) as [f1 H1].
      exists (S (max f1 f2)). intros [|f] Hf; [lia|].
      cbn. rewrite app_assoc'. fold tail. rewrite H1 by lia. cbn. rewrite H2 by lia. reflexivity.
  Qed.

  Definition pr_tail := (fix go rs := match rs with [] => [] | r :: rs' => TComma :: pr r ++ go rs' end).
  Lemma pr_list_cons r rs : pr_list (r :: rs) = pr r ++ pr_tail rs.
  Proof. revert r. induction rs as [|r' rs IH]; intros r; cbn; [now rewrite app_nil_r|].
         f_equal. f_equal. specialize (IH r'). cbn in IH. exact IH. Qed.

  (* a whole list operand *)
  Lemma rt_list inl rs : wf_list wf_next inl rs -> forall rest,
      hd_not dops rest -> (inl = false -> hd_not [TComma] rest) ->
      Evals (fun f => p_list next f (pr_list rs ++ rest, inl)) (rs, (rest, inl)).
  Proof.
    destruct 1 as [inl r Hr | r1 r2 rs Hr1 Hnb Hrs]; intros rest Hd Hc.
    - (* single element *)
      assert (Hfol : follow dops inl r rest) by (split; auto).
      destruct (next_rt inl r Hr rest Hfol) as [f1 H1].
      destruct inl.
      + exists (S f1). intros [|f] Hf; [lia|]. cbn. rewrite H1 by lia. reflexivity.
      + assert (Hrest : hd_not (TComma :: dops) rest).
        { apply hd_not_cons_comma; auto. }
        destruct (rt_list_rest [] (Forall_nil _) rest Hrest) as [f2 H2]. cbn in H2.
        exists (S (max f1 f2)). intros [|f] Hf; [lia|]. cbn. rewrite H1 by lia. cbn.
        rewrite H2 by lia. reflexivity.
    - (* several elements: flag must be false, first element is not a Bin *)
      assert (Hrest : hd_not (TComma :: dops) rest).
      { apply hd_not_cons_comma; auto. }
      destruct (rt_list_rest (r2 :: rs) Hrs rest Hrest) as [f2 H2].
      assert (Hfol : follow dops false r1 (pr_tail (r2 :: rs) ++ rest)).
      { split; [cbn; exact dops_no_comma | intros Hb; congruence]. }
      destruct (next_rt false r1 Hr1 _ Hfol) as [f1 H1].
      exists (S (max f1 f2)). intros [|f] Hf; [lia|].
      rewrite pr_list_cons. cbn [p_list]. rewrite app_assoc'. rewrite H1 by lia. cbn [bind snd fst].
      fold pr_tail in H2. rewrite H2 by lia. reflexivity.
  Qed.

  (* the loop consumes one "op list" segment *)
  Lemma rt_loop_step inl op acc rs rest r :
      isop ops op = true -> wf_list wf_next inl rs ->
      hd_not dops rest -> (inl = false -> hd_not [TComma] rest) ->
      Evals (fun f => p_loop next ops f (Bin op acc rs) (rest, inl)) r ->
      Evals (fun f => p_loop next ops f acc (op :: pr_list rs ++ rest, inl)) r.
  Proof.
    intros Hop Hrs Hd Hc [f2 H2].
    destruct (rt_list inl rs Hrs rest Hd Hc) as [f1 H1].
    exists (S (max f1 f2)). intros [|f] Hf; [lia|]. cbn. rewrite Hop. rewrite H1 by lia. cbn.
    apply H2. lia.
  Qed.

  Lemma rt_loop_stop inl acc rest : hd_not ops rest ->
      Evals (fun f => p_loop next ops f acc (rest, inl)) (acc, (rest, inl)).
  Proof.
    intros H. exists 1. intros [|f] Hf; [lia|]. cbn. destruct rest as [|t tl]; [reflexivity|].
    cbn in H. rewrite H. reflexivity.
  Qed.

  (* chains: parsing "pr e ++ rest" with p_bin behaves like continuing the loop from e *)
  Lemma rt_chain inl e : wf_lvl wf_next ops inl e -> forall rest r,
      (hd_not dops rest) -> (inl = false -> is_bin e = true -> hd_not [TComma] rest) ->
      Evals (fun f => p_loop next ops f e (rest, inl)) r ->
      Evals (fun f => p_bin next ops f (pr e ++ rest, inl)) r.
  Proof.
    induction 1 as [inl e He | inl op l rs Hop Hl IH Hrs]; intros rest r Hd Hc [f2 H2].
    - assert (Hfol : follow dops inl e rest) by (split; auto).
      destruct (next_rt inl e He rest Hfol) as [f1 H1].
      exists (S (max f1 f2)). intros [|f] Hf; [lia|]. cbn. rewrite H1 by lia. cbn. apply H2; lia.
    - rewrite pr_bin, app_assoc'. cbn [app].
      destruct (ops_disj op Hop) as [Hnd Hnc].
      apply IH.
      + cbn. exact Hnd.
      + intros _ _. cbn. rewrite Hnc. reflexivity.
      + apply rt_loop_step; auto. exists f2. exact H2.
  Qed.

  Theorem rt_level inl e : wf_lvl wf_next ops inl e -> forall rest,
      follow (ops ++ dops) inl e rest ->
      Evals (fun f => p_bin next ops f (pr e ++ rest, inl)) (e, (rest, inl)).
  Proof.
    intros Hwf rest [Hd Hc].
    assert (Hd1 : hd_not ops rest /\ hd_not dops rest).
    { destruct rest as [|t tl]; [split; exact I|]. cbn in *. unfold isop in Hd.
      rewrite existsb_app in Hd. apply orb_false_iff in Hd. exact Hd. }
    apply rt_chain; try tauto.
    apply rt_loop_stop. tauto.
  Qed.
End LevelRT.

(* ---------- instantiate the two levels ---------- *)
Lemma rt_unary' : forall inl e, (fun _ e => wf_unary e) inl e -> forall rest, follow [] inl e rest ->
  Evals (fun f => p_unary f (pr e ++ rest, inl)) (e, (rest, inl)).
Proof. intros inl e H rest _. destruct (rt_unary e H rest inl) as [f0 H0]. exists f0. exact H0. Qed.

Theorem rt_factor inl e : wf_factor inl e -> forall rest, follow (fops ++ []) inl e rest ->
  Evals (fun f => p_factor f (pr e ++ rest, inl)) (e, (rest, inl)).
Proof.
  apply rt_level with (wf_next := fun _ e => wf_unary e).
  - intros t Ht. destruct t; cbn in *; try discriminate; auto.
  - exact rt_unary'.
  - reflexivity.
Qed.

Theorem rt_term inl e : wf_term inl e -> forall rest, follow (tops ++ fops ++ []) inl e rest ->
  Evals (fun f => p_term f (pr e ++ rest, inl)) (e, (rest, inl)).
Proof.
  apply rt_level with (wf_next := wf_factor).
  - intros t Ht. destruct t; cbn in *; try discriminate; auto.
  - exact rt_factor.
  - reflexivity.
Qed.

(* non-vacuity: 1 + 2 * 3, 4 - 5 , 6 * 7   parses back *)
Example ex_tree : expr :=
  Bin TMinus (Bin TPlus (Num 1) [Bin TTimes (Num 2) [Num 3; Num 4]]) [Num 5; Bin TTimes (Num 6) [Num 7]].
Example ex_rt : p_term 50 (pr ex_tree, false) = Ok (ex_tree, ([], false)).
Proof. vm_compute. reflexivity. Qed.
Print Assumptions rt_term.
