From Coq Require Import List Arith Bool.
Import ListNotations.
Inductive tok := TNum (n : nat) | TPlus | TTimes | TMinus | TComma | TRoll | TTaking | TAt.
Inductive expr := Num (n : nat) | Neg (e : expr) | Bin (op : tok) (l : expr) (r : list expr)
                | Roll (e : expr) | Call (n : nat) (args : list expr) | At (a i : expr).
Inductive res (A : Type) := Ok (a : A) | Err | OutOfFuel.
Arguments Ok {A}. Arguments Err {A}. Arguments OutOfFuel {A}.
Definition bind {A B} (r : res A) (f : A -> res B) : res B :=
  match r with Ok a => f a | Err => Err | OutOfFuel => OutOfFuel end.
Notation "'let*' ' p ':=' r 'in' k" := (bind r (fun p => k)) (at level 200, p pattern).
Definition st := (list tok * bool)%type.
Definition P A := st -> res (A * st).
Definition tok_eqb (a b : tok) : bool :=
  match a, b with TPlus, TPlus | TTimes, TTimes | TMinus, TMinus | TComma, TComma => true | _, _ => false end.
Definition isop (ops : list tok) (t : tok) := existsb (tok_eqb t) ops.

(* combinators with their own fuel, taking already-fuelled sub-parsers *)
Section Comb.
  Variable next : P expr.
  Variable ops : list tok.
  Fixpoint list_rest (fuel : nat) : P (list expr) := fun s =>
    match fuel with O => OutOfFuel | S f =>
      match fst s with
      | TComma :: r => let* '(e, s1) := next (r, snd s) in
                       let* '(es, s2) := list_rest f s1 in Ok (e :: es, s2)
      | _ => Ok ([], s) end end.
  Definition plist (fuel : nat) : P (list expr) := fun s =>
      let* '(e, s1) := next s in
      let outer := snd s in
      if outer then Ok ([e], (fst s1, outer))
      else let* '(es, s2) := list_rest fuel (fst s1, true) in Ok (e :: es, (fst s2, outer)).
  Fixpoint loop (fuel : nat) (acc : expr) : P expr := fun s =>
    match fuel with O => OutOfFuel | S f =>
      match fst s with
      | t :: r => if isop ops t then let* '(es, s1) := plist f (r, snd s) in loop f (Bin t acc es) s1
                  else Ok (acc, s)
      | [] => Ok (acc, s) end end.
  Definition pbin (fuel : nat) : P expr := fun s => let* '(e, s1) := next s in loop fuel e s1.
End Comb.

Fixpoint args_rest (next : P expr) (fuel : nat) : P (list expr) := fun s =>
  match fuel with O => OutOfFuel | S f =>
    match fst s with
    | TComma :: r => let* '(e, s1) := next (r, snd s) in let* '(es, s2) := args_rest next f s1 in Ok (e :: es, s2)
    | _ => Ok ([], s) end end.

(* the mutually recursive core, all on fuel *)
Fixpoint p_term (fuel : nat) : P expr :=
  match fuel with O => fun _ => OutOfFuel | S f => pbin (p_factor f) [TPlus; TMinus] f end
with p_factor (fuel : nat) : P expr :=
  match fuel with O => fun _ => OutOfFuel | S f => pbin (p_unary f) [TTimes] f end
with p_unary (fuel : nat) : P expr := fun s =>
  match fuel with O => OutOfFuel | S f =>
    match fst s with
    | TMinus :: r => let* '(e, s') := p_unary f (r, snd s) in Ok (Neg e, s')
    | _ => p_primary f s end end
with p_primary (fuel : nat) : P expr := fun s =>
  match fuel with O => OutOfFuel | S f =>
    let* '(e, s1) := p_nonsub f s in p_sub_after f e s1 end
with p_sub_after (fuel : nat) (e : expr) : P expr := fun s =>
  match fuel with O => OutOfFuel | S f =>
    match fst s with
    | TAt :: r => let* '(i, s1) := p_nonsub f (r, snd s) in p_sub_after f (At e i) s1
    | _ => Ok (e, s) end end
with p_nonsub (fuel : nat) : P expr := fun s =>
  match fuel with O => OutOfFuel | S f =>
    match fst s with
    | TNum n :: TTaking :: r =>
        let* '(a, s1) := p_unary f (r, snd s) in
        let* '(as_, s2) := args_rest (p_unary f) f s1 in Ok (Call n (a :: as_), s2)
    | TNum n :: r => Ok (Num n, (r, snd s))
    | TRoll :: r => let* '(e, s1) := p_primary f (r, snd s) in Ok (Roll e, s1)
    | _ => Err end end.

Eval vm_compute in p_term 40 ([TNum 1; TPlus; TNum 2; TTimes; TNum 3; TComma; TNum 4; TAt; TNum 0; TMinus; TRoll; TNum 7; TTaking; TMinus; TNum 1; TComma; TNum 2], false).
(* one-step unfolding lemma pattern *)
Lemma p_unary_eq f s : p_unary (S f) s =
    match fst s with
    | TMinus :: r => let* '(e, s') := p_unary f (r, snd s) in Ok (Neg e, s')
    | _ => p_primary f s end.
Proof. reflexivity. Qed.
