From Coq Require Import List Arith Bool.
Import ListNotations.
Inductive expr := Lit (n : nat) | Var (x : nat) | Neg (e : expr) | Bin (l : expr) (r : list expr).
Inductive res (A : Type) := Ok (a : A) | Fail (e : nat) | OutOfFuel.
Arguments Ok {A}. Arguments Fail {A}. Arguments OutOfFuel {A}.

Section Visitor.
  Variables (St O : Type) (dflt : O) (combine : O -> O -> O).
  Definition M := St -> res (O * St).
  Definition ret (o : O) : M := fun s => Ok (o, s).
  Definition bind (m : M) (k : O -> M) : M := fun s =>
    match m s with Ok (o, s') => k o s' | Fail e => Fail e | OutOfFuel => OutOfFuel end.
  (* method table *)
  Record vt := { v_expr : expr -> M; v_lit : nat -> M; v_var : nat -> M; v_neg : expr -> M; v_bin : expr -> list expr -> M;
                 v_list : list expr -> M }.
  (* default methods, open recursion through [self] *)
  Fixpoint combine_all (self : vt) (es : list expr) (acc : O) : M :=
    match es with [] => ret acc | e :: es' => bind (v_expr self e) (fun o => combine_all self es' (combine acc o)) end.
  Definition defaults (self : vt) : vt :=
    {| v_expr := fun e => match e with Lit n => v_lit self n | Var x => v_var self x | Neg e => v_neg self e | Bin l r => v_bin self l r end;
       v_lit := fun _ => ret dflt;
       v_var := fun _ => ret dflt;
       v_neg := fun e => v_expr self e;
       v_bin := fun l r => bind (v_expr self l) (fun a => bind (v_list self r) (fun b => ret (combine a b)));
       v_list := fun es => combine_all self es dflt |}.
  Definition bottom : vt := let b := fun _ : St => @OutOfFuel (O * St) in
    {| v_expr := fun _ => b; v_lit := fun _ => b; v_var := fun _ => b; v_neg := fun _ => b; v_bin := fun _ _ => b; v_list := fun _ => b |}.
  (* a visitor = a function from (defaults self) and self to the overridden table *)
  Variable override : vt -> vt -> vt.   (* override base self *)
  Fixpoint tie (fuel : nat) : vt := match fuel with 0 => bottom | S f => override (defaults (tie f)) (tie f) end.
End Visitor.

(* instance 1: count variables, stateful, no override *)
Definition count_vars : nat -> vt nat nat := tie nat nat 0 Nat.add
  (fun base self => {| v_expr := v_expr _ _ base; v_lit := v_lit _ _ base; v_var := fun x s => Ok (1, S s); v_neg := v_neg _ _ base; v_bin := v_bin _ _ base; v_list := v_list _ _ base |}).
Definition ex := Bin (Var 1) [Neg (Var 2); Bin (Lit 3) [Var 4; Var 5]].
Eval vm_compute in v_expr _ _ (count_vars 10) ex 0.
(* instance 2: a "folder" that overrides v_bin and fails on variables *)
Definition folder : nat -> vt unit nat := tie unit nat 0 (fun _ _ => 0)
  (fun base self => {| v_expr := v_expr _ _ base; v_lit := fun n s => Ok (n, s); v_var := fun _ _ => Fail 1; v_neg := v_neg _ _ base;
       v_bin := fun l r => bind _ _ (v_expr _ _ self l) (fun a =>
                  (fix go (es : list expr) (acc : nat) : M unit nat := match es with [] => ret _ _ acc | e :: es' => bind _ _ (v_expr _ _ self e) (fun b => go es' (acc + b)) end) r a);
       v_list := v_list _ _ base |}).
Eval vm_compute in v_expr _ _ (folder 10) (Bin (Lit 1) [Lit 2; Bin (Lit 3) [Lit 4]]) tt.
Eval vm_compute in v_expr _ _ (folder 10) ex tt.
Require Extraction. Require Import ExtrOcamlBasic.
Extraction "v.ml" count_vars folder.
