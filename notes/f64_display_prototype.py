import struct, random, sys
def decode(x):
    b=struct.unpack('<Q',struct.pack('<d',x))[0]
    sign=b>>63; e=(b>>52)&0x7ff; m=b&((1<<52)-1)
    if e==0: mant=m<<1; exp=-1074-1+1  # integer_decode: subnormal: mant = m<<1, exp = -1075
    # Rust integer_decode: exponent = ((bits >> 52) & 0x7ff); mantissa = if exponent==0 {(bits & 0xfffffffffffff) << 1} else {(bits & 0xfffffffffffff) | 0x10000000000000}; exponent -= 1023+52
    if e==0: mant=m<<1
    else: mant=m|(1<<52)
    exp=e-(1023+52)
    return sign,mant,exp,e,m
def shortest(x):
    sign,mant,exp,e,m=decode(x)
    even=(mant&1)==0
    if e==0: d=(mant,1,1,exp,even)
    elif mant==(1<<52): d=(mant<<2,1,2,exp-2,even)
    else: d=(mant<<1,1,1,exp-1,even)
    mant,minus,plus,exp,incl=d
    def lt(a,b): return a<=b if incl else a<b
    nbits=(mant+plus-1).bit_length()  # 64 - lz(mant-1)
    k=((nbits+exp)*1292913986)>>32
    scale=1
    if exp<0: scale<<=-exp
    else: mant<<=exp; minus<<=exp; plus<<=exp
    if k>=0: scale*=10**k
    else: mant*=10**-k; minus*=10**-k; plus*=10**-k
    if lt(scale,mant+plus): k+=1
    else: mant*=10; minus*=10; plus*=10
    digs=[]
    while True:
        dg=mant//scale; mant%=scale; digs.append(dg)
        down=lt(mant,minus); up=lt(scale,mant+plus)
        if down or up: break
        mant*=10; minus*=10; plus*=10
    if up and (not down or mant*2>=scale):
        i=len(digs)-1
        while i>=0 and digs[i]==9: digs[i]=0; i-=1
        if i<0: digs=[1]+digs; k+=1   # round_up returns extra char: digits become 1 0 0.. and one more digit appended
        else: digs[i]+=1
    return digs,k
def fmt(x):
    if x!=x: return "NaN"
    if x in (float('inf'),float('-inf')): return "inf" if x>0 else "-inf"
    s='-' if struct.pack('>d',x)[0]&0x80 else ''
    if x==0: return s+"0"
    digs,k=shortest(abs(x))
    ds=''.join(map(str,digs))
    if k<=0: return s+"0."+"0"*(-k)+ds
    if k>=len(ds): return s+ds+"0"*(k-len(ds))
    return s+ds[:k]+"."+ds[k:]
def pyfmt(x):
    # from python repr digits
    from decimal import Decimal
    r=repr(x)
    if r in('nan','inf','-inf'): return {'nan':'NaN'}.get(r,r)
    d=Decimal(r)
    s=format(d,'f')
    if '.' in s: s=s.rstrip('0').rstrip('.')
    if s in('-0',): return s
    return s
random.seed(1)
bad=0
tests=[0.1,0.3,1e21,1e22,1e23,5e-324,2.2250738585072014e-308,1.7976931348623157e308,9007199254740993.0,0.30000000000000004,123456789012345678.0,2.0**-1074,2.0**60,1/3,100.0,1e-7]
for i in range(200000):
    b=random.getrandbits(64)
    x=struct.unpack('<d',struct.pack('<Q',b))[0]
    tests.append(x)
for e in range(-1074,1024): tests.append(2.0**e); 
for x in tests:
    if x!=x or x in(float('inf'),float('-inf')): continue
    a=fmt(x); b=pyfmt(x)
    if a!=b:
        bad+=1
        if bad<10: print("DIFF",repr(x),a,b)
print("n",len(tests),"bad",bad)
