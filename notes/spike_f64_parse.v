From Coq Require Import ZArith List Floats.SpecFloat.
Import ListNotations.
Open Scope Z_scope.
Definition prec := 53. Definition emax := 1024.
Definition parse_dec (neg : bool) (m e10 : Z) : spec_float :=
  match m with
  | 0 => S754_zero neg
  | _ =>
    if 0 <=? e10 then
      match binary_normalize prec emax (m * 10 ^ e10) 0 false with
      | S754_finite _ mm ee => S754_finite neg mm ee
      | S754_infinity _ => S754_infinity neg
      | x => x end
    else
      let '(q, e', l) := SFdiv_core_binary prec emax m 0 (10 ^ (- e10)) 0 in
      binary_round_aux prec emax neg q e' l
  end.
(* expected bit-level (mantissa, exponent) from IEEE: 0.1 = 0x3FB999999999999A -> m=7205759403792794 e=-56 *)
Eval vm_compute in parse_dec false 1 (-1).
(* 1e23 = 0x44B52D02C7E14AF6 -> mantissa 0x152D02C7E14AF6 = 5960464477539062 e = 24 *)
Eval vm_compute in parse_dec false 1 23.
(* 5e-324 -> smallest subnormal m=1 e=-1074 *)
Eval vm_compute in parse_dec false 5 (-324).
(* 2.4703282292062327e-324 (just below half of min subnormal) -> 0 ; 2.4703282292062328e-324 -> min subnormal *)
Eval vm_compute in parse_dec false 24703282292062327 (-340).
Eval vm_compute in parse_dec false 24703282292062328 (-340).
(* max double 1.7976931348623157e308 -> m = 2^53-1 = 9007199254740991 e = 971 *)
Eval vm_compute in parse_dec false 17976931348623157 292.
(* 1.7976931348623159e308 -> inf (rounds up beyond max) *)
Eval vm_compute in parse_dec false 17976931348623159 292.
(* halfway: 9007199254740993 (2^53+1) -> ties to even 2^53 = m 4503599627370496 e 1 *)
Eval vm_compute in parse_dec false 9007199254740993 0.
(* 0.30000000000000004 -> 0x3FD3333333333334 : m=5404319552844596 e=-54 *)
Eval vm_compute in parse_dec false 30000000000000004 (-17).
(* 123456789012345678 -> prints 123456789012345680: m = 123456789012345680/16 = 7716049313271605 e=4 *)
Eval vm_compute in parse_dec false 123456789012345678 0.
