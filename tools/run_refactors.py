#!/usr/bin/env python3
"""Applies each behaviour-preserving refactoring (/tmp/refactor_out/R*/patch.diff, or /verif/refactors/R*) to /repo,
runs every quick check, undoes it.  Expected: no VIOLATION line at all (a harmless rewrite must not raise an alarm).
Usage: run_refactors.py [R1 ...]"""
import json, os, re, subprocess, sys, time
SRC = "/verif/refactors"
ids = sys.argv[1:] or sorted(d for d in os.listdir(SRC) if re.fullmatch(r"R\d+", d))
props = [f"C{i:02d}" for i in range(1, 21)]
env = dict(os.environ, VERIF_SKIP_PROOF="1", VERIF_EVIDENCE_DIR="/tmp/refactor_evidence")
os.makedirs("/tmp/refactor_evidence", exist_ok=True)
results_path = f"{SRC}/results.json"
results = json.load(open(results_path)) if os.path.exists(results_path) else {}
for r in ids:
    assert subprocess.run("git -C /repo status --porcelain", shell=True, capture_output=True, text=True).stdout.strip() == "", "/repo not clean"
    subprocess.run(f"git -C /repo apply {SRC}/{r}/patch.diff", shell=True, check=True)
    alarms = {}
    t0 = time.time()
    try:
        for p in props:
            try:
                q = subprocess.run(f"cd /verif && ./check {p} --tier quick", shell=True, capture_output=True, text=True, env=env, timeout=2400)
                out, rc = q.stdout + q.stderr, q.returncode
            except subprocess.TimeoutExpired:
                out, rc = "TIMEOUT", 124
            vio = [l for l in out.split("\n") if l.startswith("VIOLATION") or l.startswith("  why:")]
            if vio or rc != 0:
                alarms[p] = {"rc": rc, "lines": vio[:8]}
                print(r, p, "ALARM", vio[:4], flush=True)
    finally:
        subprocess.run("git -C /repo checkout -- .", shell=True, check=True)
    results[r] = {"alarms": alarms, "wall_s": round(time.time() - t0)}
    print(r, "alarms:", list(alarms) or "none", f"{time.time() - t0:.0f}s", flush=True)
    json.dump(results, open(results_path, "w"), indent=1)
