#!/bin/sh
# regenerate _CoqProject from the .v files present (Extract/ is compiled separately)
cd /verif/coq
{ echo "-Q . RRSS"; find Base Front Exec Analysis Lint Cli Proofs Properties Generated -name '*.v' 2>/dev/null | sort; } > _CoqProject
coq_makefile -f _CoqProject -o Makefile >/dev/null
