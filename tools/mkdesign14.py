#!/usr/bin/env python3
"""Regenerates the table of seeded changes in DESIGN.md section 14 from seeded/*/meta.json and seeded/results.json."""
import json, os, re
V = "/verif"
res = json.load(open(f"{V}/seeded/results.json"))
rows = ["| id | change (first sentence of the author's description) | caught by | detected |", "|---|---|---|---|"]
ids = sorted(d for d in os.listdir(f"{V}/seeded") if re.fullmatch(r"C\d\d_[0-9a-z]", d))
n_det = 0
for i in ids:
    meta = json.load(open(f"{V}/seeded/{i}/meta.json"))
    summ = re.sub(r"\s+", " ", meta.get("summary", "")).replace("|", "/")[:160]
    r = res.get(i, {})
    first = (r.get("first") or [""])[0]
    by = first.split(":")[0][:70] if first else ""
    det = "yes" if r.get("detected") else ("no" if i in res else "not run")
    n_det += det == "yes"
    rows.append(f"| {i} | {summ} | {by} | {det} |")
s = open(f"{V}/DESIGN.md").read()
a = s.index("| id | change (first sentence")
b = s.index("What the seeded changes do *not* exercise")
s = s[:a] + "\n".join(rows) + "\n\n" + s[b:]
open(f"{V}/DESIGN.md", "w").write(s)
print(f"{len(ids)} seeded changes, {n_det} detected")
