#!/usr/bin/env python3
"""Lists the lines of /repo/src (tests excluded) that no correspondence suite executed, from `llvm-cov export`."""
import json, sys, re, collections
d = json.load(open(sys.argv[1]))
for f in d["data"][0]["files"]:
    name = f["filename"]
    if "/repo/src/" not in name or name.endswith("tests.rs") or "/tests/" in name:
        continue
    # segments: [line, col, count, hasCount, isRegionEntry, isGap]
    unc = collections.OrderedDict()
    segs = f["segments"]
    src = open(name, encoding="utf-8").read().split("\n")
    test_start = next((i for i, l in enumerate(src) if re.match(r"\s*mod tests\b", l) or re.match(r"#\[cfg\(test\)\]", l.strip())), len(src))
    for k, s in enumerate(segs):
        line, col, count, has, entry, gap = s[:6]
        if has and count == 0 and not gap and line <= test_start:
            end = segs[k + 1][0] if k + 1 < len(segs) else line
            for ln in range(line, min(end, test_start) + 1):
                unc.setdefault(ln, True)
    summ = f["summary"]["lines"]
    print(f"== {name.replace('/repo/','')}: lines {summ['covered']}/{summ['count']} ({summ['percent']:.1f}%)")
    lines = sorted(unc)
    # group into ranges
    i = 0
    while i < len(lines):
        j = i
        while j + 1 < len(lines) and lines[j + 1] == lines[j] + 1:
            j += 1
        a, b = lines[i], lines[j]
        text = src[a - 1].strip()[:100] if a - 1 < len(src) else ""
        print(f"   {a}-{b}: {text}")
        i = j + 1
