#!/bin/sh
# usage: goals.sh File.v LINE  — show the proof state after LINE lines of the file
f=$1; n=$2
( head -n "$n" "$f"; echo "Show."; ) | coqtop -Q /verif/coq RRSS 2>&1 | tail -${3:-40}
