#!/bin/bash
# verify_seeded.sh <dir with patch.diff demo.rs meta.json> : confirms in a scratch worktree that the patch
# applies, builds, leaves the baseline pass set unchanged, and that the demo fails with it and passes without.
set -u
D=$1
ID=$(basename $D)
W=/tmp/seedchk/$ID
mkdir -p /tmp/seedchk
git -C /repo worktree remove --force $W 2>/dev/null
git -C /repo worktree add --detach $W HEAD >/dev/null 2>&1 || { echo "$ID worktree-failed"; exit 1; }
cd $W
export CARGO_NET_OFFLINE=true CARGO_TARGET_DIR=$W/target
DEMO=$(python3 -c "import json;print(json.load(open('$D/meta.json')).get('demo_path','tests/seeded_demo.rs'))")
mkdir -p $(dirname $DEMO); cp $D/demo.rs $DEMO
T=$(basename $DEMO .rs)
cargo test --offline --test $T > $W/demo_base.log 2>&1; BASE_RC=$?
git apply $D/patch.diff || { echo "$ID patch-does-not-apply"; cd /; git -C /repo worktree remove --force $W; exit 1; }
cargo test --offline --test $T > $W/demo_mut.log 2>&1; MUT_RC=$?
rm -f $DEMO
cargo test --workspace --no-fail-fast --offline 2>&1 | grep -E "^test .* (ok|FAILED)$" | sort > $W/suite_mut.txt
OKN=$(grep -c " ok$" $W/suite_mut.txt); FAILS=$(grep " FAILED$" $W/suite_mut.txt | awk '{print $2}' | sort | tr '\n' ' ')
EXPECT="and_test fibonacci function_calls hello_world indented_else ninety_nine_beers poetic_numbers push simple_conditionals truthiness_test "
STATUS=ok
[ "$BASE_RC" = 0 ] || STATUS="demo-fails-on-unchanged"
[ "$MUT_RC" != 0 ] || STATUS="demo-passes-with-change"
[ "$OKN" = 217 ] || STATUS="suite-ok-count-$OKN"
[ "$FAILS" = "$EXPECT" ] || STATUS="suite-failset-differs"
echo "$ID $STATUS base_rc=$BASE_RC mut_rc=$MUT_RC ok=$OKN"
echo "{\"id\":\"$ID\",\"status\":\"$STATUS\",\"demo_unchanged_rc\":$BASE_RC,\"demo_changed_rc\":$MUT_RC,\"suite_ok\":$OKN}" > $D/verified.json
cd /; git -C /repo worktree remove --force $W
