#!/bin/sh
# extract the Coq model and build the OCaml driver into /verif/.build/ocaml/driver
set -e
B=/verif/.build/ocaml
mkdir -p $B
cd $B
if [ ! -f model.ml ] || [ -n "$(find /verif/coq/Base /verif/coq/Front /verif/coq/Exec /verif/coq/Analysis /verif/coq/Lint /verif/coq/Cli -name '*.vo' -newer model.ml 2>/dev/null | head -1)" ] || [ /verif/coq/Extract/Extract.v -nt model.ml ]; then
  coqc -Q /verif/coq RRSS /verif/coq/Extract/Extract.v -o $B/Extract.vo >/dev/null
fi
cp /verif/driver/*.ml $B/
if [ ! -f driver ] || [ model.ml -nt driver ] || [ -n "$(find /verif/driver -name '*.ml' -newer driver | head -1)" ]; then
  ocamlfind ocamlopt -w -a -package zarith -linkpkg model.mli model.ml sx.ml main_common.ml astsx.ml ext.ml main.ml -o driver
fi
