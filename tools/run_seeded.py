#!/usr/bin/env python3
"""Applies each verified seeded change to /repo, runs the property's quick check, undoes the change.
Usage: run_seeded.py [ids...]   (default: every /verif/seeded/<id>)"""
import json, os, re, shutil, subprocess, sys, time
SEEDED = "/verif/seeded"
SRC = "/tmp/mut_out"
os.makedirs(SEEDED, exist_ok=True)
# import newly verified changes
if os.path.isdir(SRC):
    for d in sorted(os.listdir(SRC)):
        p = f"{SRC}/{d}"
        if re.fullmatch(r"C\d\d_[0-9a-z]", d) and os.path.exists(f"{p}/verified.json"):
            v = json.load(open(f"{p}/verified.json"))
            if v["status"] == "ok" and not os.path.exists(f"{SEEDED}/{d}/patch.diff"):
                os.makedirs(f"{SEEDED}/{d}", exist_ok=True)
                for f in ("patch.diff", "demo.rs"):
                    shutil.copy(f"{p}/{f}", f"{SEEDED}/{d}/{f}")
                meta = json.load(open(f"{p}/meta.json"))
                meta["verified"] = v
                meta["verified_how"] = ("tools/verify_seeded.sh in a scratch worktree: patch applies; demo passes on unchanged code and fails "
                                        "with the change; cargo test --workspace pass set = the 217 baseline tests, same 10 failures")
                json.dump(meta, open(f"{SEEDED}/{d}/meta.json", "w"), indent=1, ensure_ascii=False)
ids = sys.argv[1:] or sorted(d for d in os.listdir(SEEDED) if re.fullmatch(r"C\d\d_[0-9a-z]", d))
results_path = f"{SEEDED}/results.json"
results = json.load(open(results_path)) if os.path.exists(results_path) else {}
env = dict(os.environ, VERIF_SKIP_PROOF="1", VERIF_EVIDENCE_DIR="/tmp/seeded_evidence")
for i in ids:
    pid = i.split("_")[0]
    assert subprocess.run("git -C /repo status --porcelain", shell=True, capture_output=True, text=True).stdout.strip() == "", "/repo not clean"
    t0 = time.time()
    subprocess.run(f"git -C /repo apply {SEEDED}/{i}/patch.diff", shell=True, check=True)
    try:
        p = subprocess.run(f"cd /verif && ./check {pid} --tier quick", shell=True, capture_output=True, text=True, env=env, timeout=1500)
        out = p.stdout + p.stderr
        rc = p.returncode
    except subprocess.TimeoutExpired:
        out, rc = "TIMEOUT", 124
    finally:
        subprocess.run("git -C /repo checkout -- .", shell=True, check=True)
    vio = [l for l in out.split("\n") if l.startswith("VIOLATION")]
    summ = []
    for l in vio[:3]:
        m = re.search(r"replay=(\S+)", l)
        if m and os.path.exists(m.group(1)):
            r = json.load(open(m.group(1)))
            summ.append(r.get("summary", "")[:200])
    results[i] = {"property": pid, "detected": bool(vio) and rc == 1, "violations": len(vio), "first": summ, "wall_s": round(time.time() - t0, 1),
                  "no_input": all("no-failing-input-found" in l for l in vio) if vio else None}
    print(i, results[i]["detected"], len(vio), summ[:1], f"{time.time() - t0:.0f}s", flush=True)
    json.dump(results, open(results_path, "w"), indent=1, ensure_ascii=False)
