#!/bin/bash
# Development aid (not a registered check): which lines of /repo/src do the correspondence suites execute?
# Builds the harness with source-based coverage (nightly toolchain: it ships llvm-profdata/llvm-cov),
# runs every quick check against that binary on the debug side, and prints the uncovered regions.
set -e
COV=/tmp/rrss_cov
rm -rf $COV; mkdir -p $COV/prof
BIN=$(ls -d /root/.rustup/toolchains/nightly-x86_64-unknown-linux-gnu/lib/rustlib/x86_64-unknown-linux-gnu/bin)
cp /repo/Cargo.lock /verif/harness/Cargo.lock
export LLVM_PROFILE_FILE="$COV/prof/build-%p-%m.profraw"
(cd /verif/harness && CARGO_NET_OFFLINE=true RUSTFLAGS="--cfg rrss_verif -C instrument-coverage" \
   cargo +nightly build --offline --target-dir $COV/target 2>&1 | tail -3)
export LLVM_PROFILE_FILE="$COV/prof/%p-%m.profraw"
export VERIF_HARNESS_DEBUG=$COV/target/debug/rrss-verif-harness VERIF_SKIP_PROOF=1 VERIF_EVIDENCE_DIR=$COV/ev
mkdir -p $COV/ev
# the ordinary build still runs (release side, driver); only the debug side is swapped
for p in ${@:-C01 C02 C03 C04 C05 C06 C07 C08 C09 C10 C11 C12 C13 C14 C15 C16 C17 C18 C19 C20}; do
  /verif/check $p 2>&1 | grep "tier=" || true
done
$BIN/llvm-profdata merge -sparse $COV/prof/*.profraw -o $COV/all.profdata
$BIN/llvm-cov report $VERIF_HARNESS_DEBUG -instr-profile=$COV/all.profdata /repo/src 2>/dev/null | tee $COV/report.txt | tail -40
$BIN/llvm-cov export $VERIF_HARNESS_DEBUG -instr-profile=$COV/all.profdata /repo/src 2>/dev/null > $COV/export.json
python3 /verif/tools/cov_uncovered.py $COV/export.json > $COV/uncovered.txt
echo "uncovered regions: $COV/uncovered.txt"
