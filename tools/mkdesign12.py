#!/usr/bin/env python3
"""Regenerates section 12 of DESIGN.md (per-property pinned theorems and gaps) from pins.json."""
import json, re
p = '/verif/DESIGN.md'; s = open(p).read()
pins = json.load(open('/verif/pins.json'))
props = {}
for l in open('/verif/properties.jsonl'):
    d = json.loads(l); props[d['id']] = d.get('title', '')
out = ["## 12. Per-property status: pinned theorems and what is not proved\n",
       "Generated from `pins.json` by `tools/mkdesign12.py` (the list the checks enforce: a check fails if a pinned theorem is missing,",
       "not closed by a single `exact`, or depends on a non-allow-listed axiom). All 20 properties are claimed.\n"]
for pid in sorted(pins):
    v = pins[pid]
    out.append(f"**{pid} — {props.get(pid, '')}**  ")
    out.append("Theorems (" + str(len(v['theorems'])) + "): " + ", ".join('`' + t + '`' for t in v['theorems']) + ".  ")
    for q in v.get('partial', []):
        out.append("Not proved / scope: " + q + "  ")
    out.append("")
new = '\n'.join(out) + "\n"
i = s.index("## 12. Per-property status")
j = s.index("## 13. Corrections")
s = s[:i] + new + s[j:]
open(p, 'w').write(s)
print("section 12 regenerated")
