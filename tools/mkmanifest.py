#!/usr/bin/env python3
"""Regenerates MANIFEST.json from pins.json (which properties have pinned theorems) and the texts below."""
import json
props = {json.loads(l)["id"]: json.loads(l) for l in open("/verif/properties.jsonl")}
pins = json.load(open("/verif/pins.json"))
TEXT = {
 "C01": "Coq theorems: lex_total (the lexer returns a token list for every source < 4 GiB in both profiles: no panic, no slice off a character boundary, loops terminate) parse_total (every source < 4 GiB yields a program or an error that renders: the model's fuel never runs out because every parser loop consumes a token and the precedence-ladder descent is bounded — the theorem that excludes a non-consuming top-level loop such as the repaired stray-`else` defect) and parse_never_crashes (for every source and any fuel the parser model never reaches any of its panic/unchecked sites — unwrap, unchecked_unwrap, extract_unchecked, assert, debug_assert, buffer slicing for poetic strings — and every error it returns renders), proved through a parser-wide safety invariant over token lists that are ordered slices of the buffer (what C12 proves of the lexer); tied by LEX and PARSE correspondence on exhaustive small strings, token soup, mutated corpus, deep nesting, both profiles, with crash/hang detection.",
 "C02": "Coq theorems: every expression tree the parser model returns is a tree of the declarative grammar (Front/Grammar.v: precedence ladder, left-associative chains, list operands, is-comparisons, subscripts, call arguments and their separators) for exactly the tokens consumed, and every tree of that grammar obeys the precedence/associativity discipline; every keyword alias in any letter case lexes to its type; number and string tokens carry exactly their written value; tied by PARSE correspondence on generated trees in 4 spellings each (aliases, case, noise, comments, separators, Unicode whitespace) + the spelling-invariance oracle on the implementation.",
 "C03": "Coq theorems: the model of val.rs computes exactly the declarative 6x6 coercion tables for + - * / equality ordering, negation, not, inc/dec, printed text; evaluation clauses for left-to-right list folding, short-circuit (operand not evaluated, result sound), compound assignment; tied by VAL (exhaustive UxU) and one-line programs for every operator alias on every pair of source values.",
 "C04": "Coq theorems: semantic clauses of if / while / until / block / break / continue as one-step unfoldings of the interpreter model, error stops the block, output written before an error is preserved (from the global interpreter invariant); tied by EXEC control-flow skeletons incl. side-effecting loop conditions and write faults.",
 "C05": "Coq theorems: call protocol, argument order, parameters in a fresh scope, scope-stack depth restored after every statement/call/expression (locals do not leak; by induction on fuel, so through recursion), stores never touch other variables, pronoun set by lookups and cleared at scope exit, arity/unknown-name errors; tied by EXEC templates and generated programs with functions.",
 "C06": "Coq theorems over the array model (index write extends with mysterious and frames other cells/keys, read-after-write, missing reads, rock/roll FIFO, decay to length, errors, variable independence); tied by VAL-arrays (exhaustive) and EXEC operation histories over copied arrays.",
 "C07": "Coq theorems: join(split s d) = s for every string and delimiter, wrong-kind / bad-radix / bad-code-point errors; tied by VAL-mutations and EXEC-mutations (with/without into, variables, subscripts, pronouns, side-effecting subscripts).",
 "C08": "Coq theorems: say writes text+LF, a failing writer leaves exactly the accepted prefix and errors (and keeps failing), listen consumes exactly one line and leaves the output alone, output only grows through any statement (also on errors), no crash under faults; tied by IO suite over every writer budget and reader fault position.",
 "C09": "Coq theorem exec_no_crash: for every syntax tree, profile, input, fault positions and fuel, execution never reaches a panic / unchecked-unsafe site of the model (global invariant by induction on fuel over all 14 interpreter functions); tied by EXEC on ill-typed programs in debug and release with crash detection.",
 "C10": "Coq theorems as pinned + repeated executions in one process, in fresh processes and through the rrss binary must be byte-identical; model (which has no hash order) = implementation.",
 "C11": "Coq theorems as pinned + EXEC-poetic correspondence and the exact-decimal oracle (exact below 2^53, <= 8 ulp otherwise).",
 "C12": "Coq theorem lex_stream: for every source < 4 GiB and both profiles the lexer model returns tokens, and the source is exactly gap,token,gap,...,gap with ignorable gaps (never a line feed) and every token (incl. staged 's/'re suffixes and tokens after multi-line strings/comments) a non-empty slice at its recorded byte offset whose range is the true (line, byte column) of its first byte and the position just past its last byte; corollaries: order, non-overlap, what `true line/column` means; tied by LEX correspondence (type, payload, spelling, offset, range, post-state) and an independent recomputation of line/column on the implementation's tokens.",
 "C13": "Coq theorems: every parse error points at a token of the input whose reported line is its true line (1 + line feeds before it) or, at end of input, at the lexer's final line; a program is returned only when every token was consumed; local rejection clauses (error token at statement start, anything but [,.]? newline after a statement, missing operand at end); tied by the fault-injection oracle (Err, reported line = fault line) and PARSE correspondence on code, line and message.",
 "C14": "Coq theorems over the value model (equality symmetry on all well-formed nested values, compare duality incl. errors, <=&>= = equality, logic vs truthiness, bool build/knock) for all values; tied by exhaustive UxU correspondence in debug and release, the laws re-checked on the implementation's answers and at the program level through every operator spelling.",
 "C15": "Coq theorems as pinned + renaming/re-casing oracle on generated programs (fresh names of all three kinds, accented letters) and model = implementation.",
 "C16": "Coq theorem: for every visitor with monoid outputs the runner's walk = left-to-right fold of the callback over the flat field-order event list, stopping at the first error (returned unchanged); tied by suite VISIT (recording visitor against the public traits failing at every callback index).",
 "C17": "Coq theorems: folder value = interpreter value in any environment (no side effect), complete on constant expressions, never on non-constant ones, same for the string folder; tied by FOLD suite and fold-vs-exec oracle.",
 "C18": "Coq theorems as pinned + LINT correspondence and the suggestion-equivalence oracle (suggested line parses, runs, stores the reported value).",
 "C19": "Coq theorems: lint output sorted by line, a permutation of both passes' diagnostics, stable within a line (pass then traversal order), repeated-identifier pass = its declarative specification, and lint_total: the linter has no error path and its single failure site is unreachable because the printed text of a non-negative finite number is digits and periods only (proved through the shortest-digits port); tied by suite LINT incl. crash detection.",
 "C20": "Thin Coq theorems about the routing model + process-level comparison of the real binary with the library (stdout bytes, stderr prefixes, lint rendering, invalid UTF-8 input, exit status).",
}
checks, na = [], []
for pid in sorted(props):
    th = pins.get(pid, {}).get("theorems", [])
    if not th:
        na.append({"property_id": pid, "reason": "check built (correspondence + oracles run clean on the unchanged tree and detect the seeded changes) but no Coq theorem is pinned yet; not claimed at proof level until its obligations exist"})
        continue
    partial = pins[pid].get("partial", [])
    checks.append({
        "property_id": pid, "quick_cmd": f"./check {pid} --tier quick", "thorough_cmd": f"./check {pid} --tier thorough",
        "evidence_file": f"/verif/evidence/{pid}.json", "replay_cmd_template": f"./check {pid} --replay {{path}}", "engine": "coq-model",
        "level_claimed": {"category": "proof", "text": TEXT[pid], "design_ref": f"DESIGN.md section 6, {pid}"},
        "level_note": ("Pinned theorems: " + ", ".join(th) + ". Trusted: Coq 8.16 kernel; hand-written model tied by correspondence (extraction with ExtrOcamlBasic only, "
                       "OCaml driver, Rust harness rebuilt from /repo in debug and release); f64<->text ports tied by suite F64. " + ("Not proved: " + " | ".join(partial) if partial else "")),
        "technique": "machine-checked proof in Coq (Rocq) + model/implementation correspondence"})
claimed = [c["property_id"] for c in checks]
m = {"version": 1, "setup_cmd": "./setup.sh",
     "hooks": {"guard": "rrss_verif", "enable": "RUSTFLAGS=\"--cfg rrss_verif\" (no hook is needed: everything observed is public API)",
               "baseline_off_cmd": "cd /repo && cargo test --workspace --no-fail-fast --offline", "source_commits": [], "add_only": True},
     "engines": [{"name": "coq-model", "path": "/verif/coq", "serves_properties": claimed, "kind_free_text": "Coq 8.16 development: executable Gallina model of the whole pipeline + theorems"},
                 {"name": "ocaml-extracted-model", "path": "/verif/driver", "serves_properties": claimed, "kind_free_text": "extraction of the model + driver, run on generated cases"},
                 {"name": "rust-harness", "path": "/verif/harness", "serves_properties": claimed, "kind_free_text": "runs the real rrss (debug+release) on the same cases"}],
     "checks": checks, "not_applicable": na,
     "notes": "See DESIGN.md. known_findings.json lists recorded findings and fixed defects (fix: commits in /repo). seeded/ holds the 40 confirmed seeded changes and which checks catch them."}
json.dump(m, open("/verif/MANIFEST.json", "w"), indent=1)
print("claimed", claimed)
