"""Values that only arise after many steps or at the edges of a representation: running sums of inexact fractions,
repeated doubling / halving into infinity and zero, counters across 2^53, strings and arrays grown by loops, repetition
counts and code points at every boundary.  No oracle of its own: model = implementation on output and outcome."""

COUNTS = [0, 1, 2, 3, 7, 8, 9, 10, 15, 16, 17, 31, 32, 33, 63, 64, 65, 100, 127, 128, 129, 255, 256, 257, 1000, 1023, 1024, 1025]
CODEPOINTS = [-1, 0, 1, 9, 10, 13, 31, 32, 127, 128, 159, 160, 255, 256, 2047, 2048, 4095, 4096, 55295, 55296, 56319, 56320, 57343, 57344, 65279, 65533, 65534,
              65535, 65536, 65537, 131071, 131072, 1114109, 1114110, 1114111, 1114112, 1114113, 4294967295, 4294967296, 4294967297, "0.5", "1.5", "65.9", "1e10", "1e19", "1e300"]
REPEATS = [-2, -1, "-0.5", 0, "0.4", "0.5", "0.9", 1, "1.5", "1.9", 2, 3, 7, 8, 9, 16, 64, 255, 256, 257, 1024, 4096, 65536]


def loop(n, body, var="Ctr"):
    return f"{var} is 0\nwhile {var} is less than {n}\nbuild {var} up\n{body}\n\n"


def programs(quick):
    out = []
    counts = [c for c in COUNTS if c <= 300] if quick else COUNTS

    def add(tag, src):
        out.append({"src": src, "meta": tag})

    for n in counts:
        for step in ("0.1", "0.7", "1.1", "0.001", "3", "1e15", "0.00001", "0.5"):
            add("running-sum", f"Sum is 0\n{loop(n, f'let Sum be Sum plus {step}')}say Sum\nlet Sum be Sum minus {step}\nsay Sum\nsay Sum times 3\n")
        add("running-product", f"Prod is 1\n{loop(n, 'let Prod be Prod times 2')}say Prod\nsay Prod times Prod\nsay Prod over 3\nsay 0 minus Prod\n")
        add("running-product", f"Prod is 1\n{loop(n, 'let Prod be Prod over 2')}say Prod\nsay Prod times Prod\nsay Prod times 3\nsay 0 minus Prod\n")
        add("running-product", f"Prod is 1\n{loop(n, 'let Prod be Prod times 10')}say Prod\nsay Prod plus 1\nsay Prod over 7\nsay 1 over Prod\n")
        add("running-product", f"Prod is 1\n{loop(n, 'let Prod be Prod times 1.5')}say Prod\nturn Prod down\nsay Prod\n")
        add("counter", f"Cnt is 0\n{loop(n, 'build Cnt up, up')}say Cnt\n{loop(n, 'knock Cnt down', 'Dtr')}say Cnt\n")
        add("string-growth", f"Str says x\n{loop(n, 'let Str be Str with Ctr')}say Str\ncut Str into Parts\nsay Parts\nsay Str at {n}\n")
        add("array-growth", f"rock Arr\n{loop(n, 'rock Arr with Ctr')}say Arr\nsay Arr at {max(n - 1, 0)}\nroll Arr into First\nsay First\nsay Arr\n")
        add("array-growth-roll", f"rock Arr\n{loop(n, 'rock Arr with Ctr, Ctr')}{loop(n, 'roll Arr', 'Dtr')}say Arr\nsay roll Arr\n")
        add("dict-growth", f"rock Arr\nKey is 0\n{loop(n, 'let Key be Ctr times 0.5' + chr(10) + 'let Arr at Key be Ctr')}say Arr\nsay Arr at 0.5\nsay Arr at 1\n")
        add("string-index", f"Str says {'abcdefghij' * (n // 10 + 1)}\nsay Str at {n}\nsay Str at {n}.5\nlet Str at {n} be \"Z\"\nsay Str\n")
    for base in ("9007199254740990", "4503599627370495", "4294967294", "2147483646", "65534", "254", "0 minus 9007199254740993", "0 minus 2147483649", "0.99999999999999978", "1e21", "999999999999999868928", "0.0000001"):
        add("counter-edge", f"let Cnt be {base}\n" + "build Cnt up\nsay Cnt\n" * 5 + "knock Cnt down\nsay Cnt\n" * 8 + "turn up Cnt\nsay Cnt\nsay Cnt is Cnt plus 1\n")
    for r in REPEATS:
        for s in ("ab", "", "é", "🎸x"):
            if quick and r == 65536 and s != "ab":
                continue
            neg = str(r).startswith("-")
            setr = f"let Rep be {str(r).lstrip('-')}\n" + ("let Rep be 0 minus Rep\n" if neg else "")
            add("repeat", f"{setr}let Str be \"{s}\" times Rep\nsay Str\nlet Rts be Rep times \"{s}\"\nsay Rts is Str\ncut Str into Parts\nsay Parts\n")
    for cp in CODEPOINTS:
        cp = "0 minus 1" if cp == -1 else cp
        add("codepoint", f"let Num be {cp}\ncast Num into Chr\nsay Chr\ncut Chr into Parts\nsay Parts\nsay Chr is \"A\"\nlet Twice be Chr with Chr\nsay Twice\ncast Num\nsay Num\n")
        add("codepoint-of", f"let Num be {cp}\ncast Num into Chr\nsay Chr with \"|\"\nlet Twice be Chr with Chr\nsay Twice\n")
    for v in ("0", "1", "255", "256", "0 minus 1", "0.5", "1e21", "0.0000001", "123456789012345680000", "0.1", "9007199254740993", "1.7976931348623157e308", "0 minus 0.000001", "100", "1e5", "123.456"):
        add("number-text-roundtrip", f"let Num be {v}\nlet Txt be \"\" with Num\nsay Txt\ncast Txt into Rev\nsay Rev\nsay Rev is Num\nlet Doubled be Txt with Txt\nsay Doubled\n")
        for radix in (2, 8, 10, 16, 36, 1, 0, 37, "2.5", "0 minus 2"):
            add("radix", f"let Rad be {radix}\nlet Txt be \"\" with {v}\ncast Txt into Rev with Rad\nsay Rev\nTen says 10\ncast Ten with Rad\nsay Ten\n")
    return out
