"""C09 — running any parseable program never crashes the interpreter."""
from . import execsuite, srcvalues
from .propbase import *

STATEMENTS = ["say V", "put V into W", "let W be V", "let V be with 1", "build V up", "knock V down", "turn up V", "turn V round",
              "cut V", "cut V into W", "join V", "cast V", "cast V with 16", "cast V with 1", "cast V with 37", "rock V", "rock V with 1, 2",
              "roll V", "roll V into W", "say V at 0", "say V at \"k\"", "let V at 0 be 1", "let V at V be 1", "say V taking 1",
              "V taking 1", "if V\nsay 1\n", "while V\nbreak\n", "say V at V", "say roll V", "join V with V", "cut V with V",
              "let V at 0 at 1 be 2", "say V plus V", "say V is greater than V", "say not V", "say 0 - V", "listen to V", "rock V like a rolling stone",
              "V is (c)'s foo", "V is a. -b", "V's ... ,,,", "say V at 1e30"]


def run(chk):
    proved = setup(chk, "C09")
    rng = rng_for(chk, 9)
    quick = chk.tier == "quick"
    cases = [{"src": c["src"], "meta": c.get("note")} for c in corpus_cases("exec")]
    vals = srcvalues.by_name()
    for (n, setup_lines, e, k) in vals:
        for st in STATEMENTS:
            if quick and rng.random() < 0.45:
                continue
            body = st.replace("V", "Vv")
            src = "\n".join(setup_lines + [f"put {e} into Vv", body, "say \"after\""]) + "\n"
            cases.append({"src": src, "meta": {"stmt": st, "kind": k}})
    # names shared by functions and variables, every spelling
    for nm in ("Midnight", "midnight", "The Night", "the night", "Big Daddy Kane"):
        for wr in (f"let {nm} be 5", f"put 5 into {nm}", f"build {nm} up", f"rock {nm} with 1", f"roll {nm}", f"{nm} is 5", f"cut {nm}", f"turn up {nm}", f"listen to {nm}", f"rock {nm} taking 1"):
            cases.append({"src": f"{nm} takes X\ngive back X\n\n{wr}\nsay 1\n", "meta": "function/variable clash"})
            cases.append({"src": f"{nm} takes X\ngive back X\n\nif true\n{wr}\nsay {nm}\n\nsay 1\n", "meta": "function/variable clash inner scope"})
    # degenerate and long poetic literals
    for k in (1, 9, 10, 22, 23, 24, 25, 40, 120):
        words = " ".join(["a", "bb", "ccc", "dddd", "lovestruck"][i % 5] for i in range(k))
        cases.append({"src": f"My dream is {words}\nsay my dream\n", "meta": f"poetic {k} words"})
        cases.append({"src": f"My dream is {words}. a bb\nsay my dream\nrock Q like {words}\nsay Q at 0\n", "meta": f"poetic {k} words frac"})
    # long strings (ASCII, 2-, 3- and 4-byte characters, every alignment around 64/128/256 bytes) as the offending value of
    # every kind of runtime error: the error must come out and render
    for pad in (0, 1, 2, 3, 61, 62, 63, 64, 65, 126, 127, 128, 254, 255, 256, 300):
        for unit in ("é", "世", "🎸", "x"):
            long_s = "a" * pad + unit * 40
            for st in ("build X up", "say X at \"k\"", "say 1 at X", "let Y at X at 1 be 2", "cast X with 99", "turn up X", "join X",
                       "say X over 2", "say X taking 1", "rock Y with 1\nsay Y at X", "cut X with 5", "X taking 1"):
                if pad not in (0, 63, 64, 127, 255) and rng.random() < 0.6:
                    continue
                cases.append({"src": f"put \"{long_s}\" into X\n{st}\nsay \"after\"\n", "meta": "long value in error"})
    # writes (and reads) through subscript chains of every depth around the inline capacities of the implementation's buffers
    for d in (1, 2, 7, 8, 9, 10, 16, 17, 33, 60):
        chain = " at 1" * d
        for pre in ("", "put \"abc\" into X", "rock X with 1, 2", "X is 5"):
            for st in (f"let X{chain} be 5", f"rock X{chain} with 7", f"roll X{chain}", f"listen to X{chain}", f"turn up X{chain}", f"cut \"a,b\" into X{chain}",
                       f"build X{chain} up", f"X{chain} is 5", f"put 1 into it{chain}"):
                if d not in (8, 9) and rng.random() < 0.5:
                    continue
                cases.append({"src": f"{pre}\n{st}\nsay X{chain}\nsay \"after\"\n".lstrip("\n"), "meta": f"subscript chain {d}"})
    # programs at the size boundaries (0..3, 2^k-1, 2^k, 2^k+1) of every dimension that has a length
    from . import gen_sizes
    cases += [{"src": src, "stdin": stdin, "meta": f"size {dim}"} for (dim, n, src, stdin) in gen_sizes.size_programs(quick)]
    known_finding_crash(chk, "F7")
    recs = execsuite.run(chk, cases, "ill", suite_name="EXEC-illtyped")
    crashed = 0
    for r in recs:
        for prof, v in r["impl"].items():
            if v in ("crash", "timeout") and not r.get("discarded"):
                crashed += 1
                if crashed <= 4:
                    chk.add_violation(f"the interpreter crashed ({prof}): {v}", {"oracle": "no-crash", "profile": prof, "src": r["case"]["src"],
                                      "meta": r["case"].get("meta"), "impl": r["impl"], "model": r["model"]})
    record_exec(chk, recs, sig=lambda r: (str(r["case"].get("meta")), outcome_class(r["impl"].get("debug", ""))))
    gen = exec_cases(chk, 400 if quick else 6000, illtyped=True, salt=99)
    recs2 = execsuite.run(chk, gen, "gen", suite_name="EXEC-gen-illtyped")
    for r in recs2:
        for prof, v in r["impl"].items():
            if v in ("crash", "timeout") and not r.get("discarded"):
                crashed += 1
                if crashed <= 6:
                    chk.add_violation(f"the interpreter crashed ({prof}): {v}", {"oracle": "no-crash", "profile": prof, "src": r["case"]["src"],
                                      "stdin": r["case"].get("stdin"), "impl": r["impl"], "model": r["model"]})
    record_exec(chk, recs2)
    chk.rule = ("every statement form applied to every value kind (30 source-level values incl. NaN/inf/-0/arrays), names shared by "
                "functions and variables in every spelling and scope, degenerate and 1..120-word poetic literals, out-of-range "
                "radices and indices, writes through subscript chains of depth 1..60, programs at the sizes 0..3 and 2^k-1, 2^k, 2^k+1 (up to 257; "
                "4097 / 65537 in thorough) of 35 dimensions (parameters, arguments, operands, elements, keys, lengths, depths, counts), plus generated ill-typed programs; both build profiles; any panic/abort/hang of the "
                "implementation is a violation, and stdout+outcome must equal the model's (which carries every unwrap/unchecked "
                "site as an explicit Panic/UB outcome)")
    conclude(chk, "C09", proved)
