"""C18 — constant-assignment lint is exact and its suggested rewrite is equivalent."""
import re
from . import suite, execsuite, gen_prog
from .propbase import *
from . import basesuites

CONSTS = ["0", "1", "5", "10", "100", "2.5", "0.125", "3.14159", "1000000", "1e21", "123456789.125", "-5", "-0", "0 times -3", "0 over -4", "1 over 0",
          "-1 over 0", "0 over 0", "1 plus 2", "2 times 3, 4", "10 without 1, 2", "100 minus 10, 20, 30", "100 over 5, 2", "1 over 3", "0.1 plus 0.2",
          "5 minus 5", "90071992547409.92", "1e300 times 1e10"]
STRS = ['"hello"', '"hello world"', '"it\'s 5, (ok)!"', '""', '" "', '"a\nb"', '"ünï"', '"say 1"']
NONCONST = ["x", "x plus 1", "it", "F taking 1", "roll Q", "Q at 0", "0 times x", "not 1", "1 is 1", '"a" plus "b"', "mysterious", "true", "null", "empty", "1, 2"]
TARGETS = ["x", "my heart", "Big Daddy Kane", "x at 1", "it"]


def programs():
    out = []
    for t in TARGETS:
        for c in CONSTS + STRS + NONCONST:
            pre = "listen to x\n" if t == "it" else ""
            out.append((pre + f"put {c} into {t}\n", t, c, "put"))
            out.append((pre + f"let {t} be {c}\n", t, c, "let"))
            out.append((pre + f"let {t} be with {c}\n", t, c, "compound"))
            if "," not in c:
                out.append((pre + f"{t} is {c}\n", t, c, "poetic-expr") if c[0] in "-0123456789\"" or c in ("mysterious", "true", "null", "empty") else (pre + f"put {c} into {t}\n", t, c, "put"))
            out.append((pre + f"rock {t} with {c}\n", t, c, "push"))
    out.append(("x is a lovestruck ladykiller\nrock x like a razor\n", "x", "", "already-poetic"))
    # targets the report has to render that are not names: literals, calls, pops, subscripts of those
    for t in ("5", "\"s\"", "mysterious", "F taking 1", "roll Q", "Q at 0 at 1", "F taking 1 at 2", "roll Q at 0", "it at 0"):
        for c in ("5", "1 plus 2", "\"hello\"", "x"):
            out.append((f"rock {t} with {c}\n", t, c, "push-odd-target"))
            out.append((f"let {t} at 0 be {c}\n", t, c, "let-odd-target"))
            out.append((f"put {c} into {t} at 1\n", t, c, "put-odd-target"))
    out.append(("if true\nput 5 into x\nwhile x\nlet y be 6\nF takes z\nput 7 into z\n\n\n\n", "x", "", "nested"))
    return out


def run(chk):
    proved = setup(chk, "C18")
    basesuites.run_f64(chk, 1500 if chk.tier == "quick" else 20000)
    rng = rng_for(chk, 18)
    quick = chk.tier == "quick"
    progs = programs()
    gen, _ = gen_prog.gen_programs(rng.randrange(10 ** 9), 100 if quick else 1500)
    lines = [f"(ana l{i} lint {C.hx(p[0])})" for i, p in enumerate(progs)] + [f"(ana g{i} lint {C.hx(p)})" for i, p in enumerate(gen)]
    res, _ = suite.compare(chk, lines, "lint", project=lambda x: x, suite_name="LINT", crash_is_violation=True)
    # oracle: each suggestion for a plain-variable target, with `*` replaced by a letter, is a statement
    # that gives the variable the reported value
    checks = []
    for i, (src, t, c, form) in enumerate(progs):
        r = res["debug"].get(f"l{i}", "")
        chk.count("form:" + form)
        chk.distinct.add((t, c, form, r.count("(diag ")))
        for m in re.finditer(r"\(diag (\d+) (#[0-9a-f]*)((?: #[0-9a-f]*)*) ?\)", r):
            issue = C.unhex(m.group(2))
            suggs = [C.unhex(x) for x in m.group(3).split()]
            mv = re.search(r"literal value `(.*)` into `(.*)` isn't", issue, re.S)
            if not mv:
                continue
            value, var = mv.group(1), mv.group(2)
            for s in suggs:
                ms = re.search(r"such as: `(.*)`$", s, re.S)
                if not ms:
                    continue
                payload = ms.group(1)
                if "\n" in payload:
                    chk.add_violation("a suggestion spans more than one line", {"oracle": "suggestion-one-line", "src": src, "suggestion": s})
                    continue
                if var in ("x", "my heart", "Big Daddy Kane") and form in ("put", "let", "poetic-expr"):
                    stmt = payload.replace("*", "x")
                    checks.append((i, src, var, value, stmt))
    cases = []
    for (i, src, var, value, stmt) in checks:
        cases.append({"src": src + f"say {var}\n", "meta": "original"})
        cases.append({"src": stmt + f"\nsay {var}\n", "meta": "suggested"})
    recs = execsuite.run(chk, cases, "sugg", suite_name="EXEC-suggestions") if cases else []
    bad = 0
    for j, (i, src, var, value, stmt) in enumerate(checks):
        a, b = recs[2 * j], recs[2 * j + 1]
        for prof in ("debug", "release"):
            sa, oa = execsuite.split_out(a["impl"].get(prof, ""))
            sb, ob = execsuite.split_out(b["impl"].get(prof, ""))
            ta = bytes.fromhex(oa).decode("utf-8", "replace").strip() if oa else None
            tb = bytes.fromhex(ob).decode("utf-8", "replace").strip() if ob else None
            ok = sb == "ok" and ta is not None and tb is not None
            if ok:
                try:
                    fa, fb = float(ta), float(tb)
                    ok = fa == fb or abs(fa - fb) <= 1e-12 * max(abs(fa), abs(fb))
                except ValueError:
                    ok = ta == tb
            if not ok:
                bad += 1
                if bad <= 4:
                    chk.add_violation(f"the suggested rewrite `{stmt}` does not give `{var}` the reported value {value}",
                                      {"oracle": "suggestion-equivalent", "profile": prof, "original": src, "suggested": stmt, "original_prints": ta, "suggested_prints": tb, "suggested_status": sb[:60]})
            # the reported value is the one the program stores
            if ta is not None and sa == "ok" and value.strip('"') != ta and not value.startswith('"'):
                try:
                    if float(value) != float(ta):
                        raise ValueError
                except ValueError:
                    bad += 1
                    if bad <= 4:
                        chk.add_violation(f"lint reports the value {value} for `{var}`, the program stores {ta}",
                                          {"oracle": "reported-value", "profile": prof, "src": src, "reported": value, "stored": ta})
    record_exec(chk, recs[:40])
    chk.rule = ("every assignment form (put / let / compound let / poetic with expression / rock with) x targets (simple, common, "
                "proper, subscript, pronoun) x right-hand sides: constants (zero digits, fractions, huge, negative, -0, +-inf, NaN, "
                "list operands), strings (spaces, punctuation, empty, with a line break), non-constants; plus generated programs; "
                "oracles: each suggestion is one line, and for a plain variable target the suggestion with `*` replaced by `x` parses, "
                "runs and leaves the variable printing the same as the original program; reported value = stored value; "
                "and diagnostics (line, issue, suggestions, rendering) = model")
    conclude(chk, "C18", proved)
