"""Layout variants of block-structured programs: what ends a block, what separates statements, and what does neither.
Every line boundary of every base program gets every kind of inserted line (empty, blanks, tabs, a comment, a comment
with blanks, punctuation only, a lone CR), every line ending convention, indentation, trailing blanks / punctuation /
comments, and the blank lines that close blocks are removed one at a time (closing by end of file, by `else`, by a
longer run of blank lines).  The variants are NOT assumed to mean the same as the base program (an extra blank line
closes one more block): the oracle is model = implementation on the tree and on the run."""

BASES = [
    "X is 1\nif X\nsay 1\nif X is 2\nsay 2\nelse\nsay 3\n\nsay 4\nelse\nsay 5\n\nsay 6\n",
    # every loop condition consumes a queue, so that no layout can make a loop endless
    "rock Q with 1, 2, 3, 4\nX is 0\nwhile roll Q\nbuild X up\nif X is 2\ncontinue\n\nsay X\n\nsay \"done\"\n",
    "Twice takes N\nlet M be N with N\nif M is greater than 4\ngive back M\n\ngive back N\n\nsay Twice taking 2\nsay Twice taking 3\n",
    "Outer takes P\nInner takes B\ngive back B times 2\n\ngive back Inner taking P\n\nsay Outer taking 4\n",
    "rock Q with 1, 2, 3\nuntil not roll Q\nlet V be Q at 0\nif V is 3\nbreak\n\nsay V\n\nsay Q\n",
    "X is 2\nif X is 1\nsay 1\nelse\nif X is 2\nsay 2\nelse\nsay 3\n\n\nsay 9\n",
    "rock Q with 1, 1, 1, 1, 1\nwhile roll Q\nlisten to L\nsay L\nif L is \"stop\"\nbreak\n\n\nsay \"eof\"\n",
    "Tommy says hello\nif Tommy\nsay Tommy\nTommy says bye\n\nsay Tommy\nMy life is a long road\nsay my life\n",
    "rock Q with 1, 1, 1\nrock R with 1, 1, 1\nif true\nwhile roll Q\nuntil not roll R\nsay 1\nbreak\n\nsay 2\nbreak\n\nsay 3\n\nsay 4\n",
    "F takes X\nsay X\n\nF taking 1\nif false\nelse\nsay 2\n\nrock Q with 1\nwhile roll Q\n\n\nsay 3\n",
]

INSERTS = ["", " ", "   ", "\t", " \t ", "(c)", "(c) ", " (c)", "(a\nb)", ",", ".", ";", "...", "\r", "\u00a0", "\u3000", "\u2028", "(c)(d)", "''", "?!"]
ENDINGS = ["\r\n", "\r", "\n\r", " \n", "\t\n", ",\n", ".\n", " (c)\n", "(c)\n", ";\n", "!\n", "\u00a0\n", "\n ", "\n\t", "\n  "]
STDIN = "one\ntwo\nstop\nthree\n"


def variants(quick, rng):
    out = []
    for b, base in enumerate(BASES):
        lines = base.split("\n")[:-1]
        out.append((f"base{b}", base))
        # 1. insert a line at every boundary
        for k in range(len(lines) + 1):
            for ins in INSERTS:
                if quick and rng.random() < 0.6:
                    continue
                out.append((f"insert{b}", "\n".join(lines[:k] + [ins] + lines[k:]) + "\n"))
        # 2. every line ending convention, globally and at one boundary
        for e in ENDINGS:
            out.append((f"endings{b}", e.join(lines) + e))
            k = rng.randrange(len(lines))
            out.append((f"ending-one{b}", "".join(l + (e if i == k else "\n") for i, l in enumerate(lines))))
        # 3. blank lines removed one at a time; doubled; tripled; end of file variants
        for k, l in enumerate(lines):
            if l == "":
                out.append((f"unblank{b}", "\n".join(lines[:k] + lines[k + 1:]) + "\n"))
                out.append((f"reblank{b}", "\n".join(lines[:k] + ["", "", ""] + lines[k + 1:]) + "\n"))
        for cut in range(1, len(lines) + 1):
            out.append((f"truncate{b}", "\n".join(lines[:cut])))
            if not quick or cut % 2:
                out.append((f"truncate-nl{b}", "\n".join(lines[:cut]) + "\n"))
                out.append((f"truncate-nlnl{b}", "\n".join(lines[:cut]) + "\n\n"))
        # 4. indentation and alignment
        for ind in (" ", "    ", "\t", "\u00a0", "\u3000 "):
            out.append((f"indent{b}", "".join(ind + l + "\n" for l in lines)))
            out.append((f"indent-nonblank{b}", "".join((ind + l if l else l) + "\n" for l in lines)))
        # 5. two statements on one line, separators of every kind (mostly syntax errors: same verdict and line expected)
        for k in range(len(lines) - 1):
            for sep in (" ", ", ", ". ", "; ", " & ", " and ", " (c) "):
                if quick and rng.random() < 0.7:
                    continue
                out.append((f"joined{b}", "\n".join(lines[:k] + [lines[k] + sep + lines[k + 1]] + lines[k + 2:]) + "\n"))
    return out
