"""C15 — renaming variables and re-casing names or keywords never changes behaviour."""
import random
from . import execsuite, gen_prog
from .propbase import *
from . import basesuites

FRESH_SIMPLE = ["qux", "zed", "wombat", "lyric", "vinyl", "étoile", "über", "ölçer", "jalapeño", "riff", "chord", "snare", "elan"]
FRESH_COMMON_PREFIX = ["my", "your", "the", "a", "an", "our"]
FRESH_WORDS = ["guitar", "élan", "ärger", "amp", "groupie", "roadie", "encore", "été", "ballad", "solo", "öl"]
FRESH_PROPER = ["Axl Rose", "Élan Über", "Ziggy Stardust", "Freddie M", "Ölçer Été Bar", "Joan Jett", "Lemmy K", "Iggy Pop Star"]


def fresh_names(rng, pools):
    """position-wise fresh names of random kinds, injective"""
    used = set()
    out = {}

    def fresh():
        for _ in range(200):
            k = rng.random()
            if k < 0.4:
                n = rng.choice(FRESH_SIMPLE) + rng.choice(["", "", "o", "a"])
            elif k < 0.7:
                n = rng.choice(FRESH_COMMON_PREFIX) + " " + rng.choice(FRESH_WORDS)
            else:
                n = rng.choice(FRESH_PROPER)
            key = n.lower()
            if key not in used:
                used.add(key)
                return n
        raise RuntimeError("name pool exhausted")
    for pool, names in pools.items():
        out[pool] = [fresh() for _ in names]
    return out


def run(chk):
    proved = setup(chk, "C15")
    basesuites.run_kw(chk)
    basesuites.run_uni(chk)
    rng = rng_for(chk, 15)
    quick = chk.tier == "quick"
    n = 200 if quick else 2500
    seed0 = rng.randrange(10 ** 9)
    pools = {"SIMPLE": gen_prog.SIMPLE, "COMMON": gen_prog.COMMON, "PROPER": gen_prog.PROPER, "FUNCS": gen_prog.FUNCS,
             "PARAMS": ["alpha", "beta", "gamma", "my soul", "the night"]}
    variants = []
    base, stats = gen_prog.gen_programs(seed0, n, spelling_seed=1, recase_names=False, focus={"poetic": 0.4})
    variants.append(base)
    for v in range(1, 4):
        names = fresh_names(random.Random(seed0 + v), pools)
        progs, _ = gen_prog.gen_programs(seed0, n, spelling_seed=1 + v, names=names, recase_names=True, focus={"poetic": 0.4})
        variants.append(progs)
    # keyword re-casing of whole programs (outside strings and poetic lines), applied to variant 3
    def recase_keywords(src):
        out = []
        for line in src.split("\n"):
            if " says " in line or " said " in line or '"' in line or " like " in line:
                out.append(line)
                continue
            words = line.split(" ")
            first = words[0]
            if first.lower() in ("say", "shout", "whisper", "scream", "put", "let", "if", "while", "until", "build", "knock", "rock", "roll", "cut", "split",
                                 "shatter", "join", "unite", "cast", "burn", "turn", "give", "return", "send", "listen", "else", "break", "continue", "take"):
                words[0] = rng.choice([first.upper(), first.capitalize(), first, "".join(rng.choice([c.upper(), c.lower()]) for c in first)])
            out.append(" ".join(words))
        return "\n".join(out)
    variants[3] = [recase_keywords(p) for p in variants[3]]
    cases = []
    for i in range(n):
        for v in range(4):
            cases.append({"src": variants[v][i], "stdin": "in1\nin2\n", "meta": {"tree": i, "variant": v}})
    recs = execsuite.run(chk, cases, "rename", suite_name="EXEC-renamings", project=lambda s, o: (execsuite.strip_msg(s), o))
    bad = 0
    for i in range(n):
        group = recs[4 * i: 4 * i + 4]
        for prof in ("debug", "release"):
            b = group[0]["impl"].get(prof, "")
            bs, bo = execsuite.split_out(b)
            if b.startswith("parse-error") or b.startswith("timeout"):
                continue          # a run cut off by the per-case time limit says nothing about behaviour
            for g in group[1:]:
                if g["impl"].get(prof, "").startswith("timeout"):
                    chk.count("discarded_timeout", 1)
                    continue
                s, o = execsuite.split_out(g["impl"].get(prof, ""))
                if (execsuite.strip_msg(s), o) != (execsuite.strip_msg(bs), bo):
                    bad += 1
                    if bad <= 4:
                        chk.add_violation("a renamed / re-cased program behaves differently",
                                          {"oracle": "rename-invariance", "profile": prof, "original": group[0]["case"]["src"], "renamed": g["case"]["src"],
                                           "original_result": C.decode_hex_fields(b)[:300], "renamed_result": C.decode_hex_fields(g["impl"].get(prof, ""))[:300]})
        chk.distinct.add(hash(group[0]["case"]["src"]) % 1000003)
    # distinct spellings denote distinct variables; the three kinds never collide
    fixed = [
        "put 1 into x\nput 2 into X\nsay x\n", "put 1 into my x\nput 2 into x\nsay my x\nsay x\n", "put 1 into The World\nput 2 into the world\nsay The World\n",
        "put 1 into Big Boss Man\nput 2 into big boss\nsay Big Boss Man\n", "Été is 5\nBuild été up\nsay ÉTÉ\n", "my Élan is 7\nput my élan plus 1 into the Ärger\nsay the ärger\n",
        "Élan Über is 3\nBuild ÉLAN ÜBER up\nsay Élan Über\n", "Ölçer takes X\ngive back X\n\nsay ölçer taking 4\n", "Gina'Re 7\nsay gina\n", "The boys'Re 4\nBuild the boys up\nsay the boys\n",
        "Johnny Rotten'rE 2\nsay Johnny Rotten\n", "Tommy is 3\nThey'Re 5\nsay Tommy\n", "SAY 1\nsAy 2\nShOuT 3\nPUT 4 INTO x\nSaY X\n", "x is 1\nİS\n", "KNOCK x DOWN\n", "Ǆ is 5\nsay ǆ\nsay ǅ\n", "ΣΑΣ is 5\nsay σας\n",
    ]
    special = ["οδοσ", "σας", "σ", "ας", "straße", "ıslak", "istanbul", "ǆungla", "ﬁx", "ångström", "kelvin", "ǰ", "ŉ", "éa", "ꙁ", "ᵹ", "ß"]
    for w in special:
        for lo, up in ((w, w.upper()), (w, w.title()), (w.upper(), w), (w.title(), w.upper()), (w.upper().lower(), w.upper())):
            fixed.append(f"{lo} is 5\nbuild {up} up\nsay {lo}\nsay {up}\n")
            fixed.append(f"the {lo} is 5\nbuild THE {up} up\nsay the {lo}\nsay The {up}\n")
            fixed.append(f"{lo.title()} {lo.title()} is 5\nbuild {up.upper()} {up.upper()} up\nsay {lo.title()} {lo.title()}\n")
            fixed.append(f"Doctor {lo.title()} takes X\ngive back X plus 1\n\nsay DOCTOR {up.upper()} taking 3\nsay Doctor {lo.title()} taking 4\n")
            fixed.append(f"my {lo} takes X\ngive back X\n\nsay MY {up} taking 3\n")
    recs2 = execsuite.run(chk, [{"src": f} for f in fixed], "fixed", suite_name="EXEC-case-fixed")
    # declarations that clash: two mentions of one name in declaring positions (parameter lists, function after
    # function, function after variable and the reverse, at top level and in a block); the second mention re-cased
    # must clash (or not) exactly as the same spelling does
    clash_t = [
        "Adder takes {A} and {B}\ngive back {A}\n\nsay \"start\"\nsay Adder taking 1, 2\n",
        "Adder takes Zed, {A}, {B}\ngive back {B}\n\nsay Adder taking 1, 2, 3\n",
        "{A} takes Zed\ngive back 1\n\nsay \"one\"\n{B} takes Zed\ngive back 2\n\nsay {A} taking 0\n",
        "{A} takes Zed\ngive back Zed\n\nsay \"one\"\n{B} is 5\nsay {B}\n",
        "{A} is 5\nsay \"one\"\n{B} takes Zed\ngive back Zed\n\nsay {A}\nsay {B} taking 2\n",
        "if true\n{A} takes Zed\ngive back 1\n\n{B} takes Zed\ngive back 2\n\nsay {A} taking 0\n\nsay \"end\"\n",
        "{A} is 1\nWrap takes {B}\nput 7 into {A}\ngive back {B}\n\nsay Wrap taking 3\nsay {A}\n",
        "listen to {A}\nlet {B} be with 1\nsay {A}\nrock {B} with 2\nsay {A} at 0\n",
    ]
    spell = [("x", "X"), ("foo", "FOO"), ("foo", "Foo"), ("Foo", "fOO"), ("the heart", "The Heart"), ("my heart", "MY HEART"), ("your été", "Your ÉTÉ"),
             ("Tom Sawyer", "TOM SAWYER"), ("Tom Sawyer", "Tom SAWYER"), ("Élan Über", "ÉLAN ÜBER"), ("été", "ÉTÉ"), ("Doctor Feelgood", "DOCTOR FeelGood")]
    ccases = []
    for t in clash_t:
        for a, b in spell:
            for va, vb in ((a, a), (a, b), (b, a), (b, b)):
                ccases.append({"src": t.replace("{A}", va).replace("{B}", vb), "stdin": "in\n", "meta": {"clash": (va, vb)}})
    recs3 = execsuite.run(chk, ccases, "clash", suite_name="EXEC-clash")
    cb = 0
    for g in range(0, len(recs3), 4):
        for prof in ("debug", "release"):
            base_r = execsuite.split_out(recs3[g]["impl"].get(prof, ""))
            for r in recs3[g + 1: g + 4]:
                o = execsuite.split_out(r["impl"].get(prof, ""))
                if (execsuite.strip_msg(o[0]), o[1]) != (execsuite.strip_msg(base_r[0]), base_r[1]):
                    cb += 1
                    if cb <= 3:
                        chk.add_violation("re-casing one mention of a declared name changes whether / how the declarations clash",
                                          {"oracle": "clash-invariance", "profile": prof, "src": r["case"]["src"], "original": recs3[g]["case"]["src"],
                                           "impl": r["impl"].get(prof, ""), "impl_original": recs3[g]["impl"].get(prof, "")})
    # every keyword alias, in three letter cases, in every grammatical position of its group: same run as the first alias
    from . import gen_alias
    acases = gen_alias.programs(quick, rng)
    recs4 = execsuite.run(chk, acases, "alias", suite_name="EXEC-aliases")
    base_i = {c["meta"]["template"]: i for i, c in enumerate(acases) if c["meta"]["alias"] is None}
    ab = 0
    for i, r in enumerate(recs4):
        m = r["case"]["meta"]
        if not m["same_tree"]:
            continue
        for prof in ("debug", "release"):
            o, b = r["impl"].get(prof, ""), recs4[base_i[m["template"]]]["impl"].get(prof, "")
            if "timeout" in (o, b):
                continue
            if o != b:
                ab += 1
                if ab <= 3:
                    chk.add_violation("a keyword alias or its letter case changes the run", {"oracle": "alias-invariance", "profile": prof, "alias": m["alias"], "group": m["group"],
                                      "src": r["case"]["src"], "impl": C.decode_hex_fields(o)[:300], "impl_first_alias": C.decode_hex_fields(b)[:300]})
    record_exec(chk, recs + recs2 + recs3 + recs4, sig=lambda r: (hash(r["case"]["src"]) % 1000003,))
    chk.rule = (f"{n} generated programs x 3 consistent renamings of every variable, parameter and function name into fresh names of "
                "random kinds (simple / common / proper, ASCII and accented letters) with per-mention case changes and keyword "
                "re-casing; oracle: stdout bytes and outcome class equal to the original's (debug and release); fixed programs for "
                "case folding of accented and special-casing letters, distinctness of spellings and of the three name kinds; 8 templates "
                "with two declaring mentions of one name (parameter lists, function/function, function/variable, in blocks) x 12 "
                "spelling pairs x 4 case combinations, which must clash alike; and "
                "model = implementation on all of them")
    conclude(chk, "C15", proved)
