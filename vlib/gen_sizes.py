"""Programs parametrised by a size, at the boundaries of the inline capacities and thresholds code tends to have (powers of
two and their neighbours), for every dimension of a Rockstar program that has a length: parameters, arguments, operand
lists, array elements, dictionary keys, string lengths, nesting depths of blocks / calls / subscripts / expressions,
statements per block, variables per scope, words and digits of poetic literals, name lengths, input lines.
Round 7 of the seeded changes: an ArrayVec of 8 on the write path, a 64 KiB reader threshold, a 9-key array in an error
message."""

SMALL = [0, 1, 2, 3, 7, 8, 9, 15, 16, 17, 31, 32, 33, 63, 64, 65]
MEDIUM = SMALL + [127, 128, 129, 255, 256, 257]
LARGE = MEDIUM + [1023, 1024, 1025, 4095, 4096, 4097]
HUGE = [65535, 65536, 65537]


def _names(n, stem="Vee"):
    # distinct simple variable names without digits: base-20 words over letters that form no keyword
    alpha = "bcdfghjklmnpqrstvwxz"
    out = []
    for i in range(n):
        w, k = "", i
        while True:
            w = alpha[k % 20] + w
            k //= 20
            if k == 0:
                break
        out.append(stem + "q" + w)
    return out


def size_programs(quick=True):
    """[(dimension, n, source, stdin)]"""
    out = []
    S, M, L = (SMALL, MEDIUM, MEDIUM) if quick else (SMALL, MEDIUM, LARGE)

    def add(dim, n, src, stdin=""):
        out.append((dim, n, src, stdin))

    for n in [x for x in M if x >= 1]:
        ps = _names(n, "Par")
        add("parameters", n, f"Func takes {', '.join(ps)}\ngive back {ps[0]} plus {ps[-1]}\n\nsay Func taking {', '.join(str(i) for i in range(n))}\n")
        add("arguments-too-many", n, f"Func takes Par\ngive back Par\n\nsay Func taking {', '.join(str(i) for i in range(n + 1))}\nsay 1\n")
        add("operand-list", n, f"say 1 plus {', '.join(str(i) for i in range(n))}\nsay \"a\" times {', '.join('2' for _ in range(min(n, 12)))}\n")
        add("rock-list", n, f"rock X with {', '.join(chr(34) + 's' + str(i) + chr(34) for i in range(n))}\nsay X\nsay X at {n - 1}\njoin X into Y\nsay Y\nroll X\nsay X\nrock Z with {', '.join(str(i) for i in range(n))}\nsay Z at {n - 1}\n")
    for n in L:
        add("array-elements", n, f"let X at {n} be 1\nsay X\nsay X at {max(n - 1, 0)}\nsay X at {n}\nroll X into Y\nsay Y\nsay X\nlet Y be X\nlet Y at 0 be 2\nsay X at 0\nsay Y at 0\nbuild X up\n")
        add("string-length", n, f"put \"{'a' * n}\" into X\nsay X\ncut X into Y\nsay Y\nsay X at {max(n - 1, 0)}\nsay X at {n}\njoin Y into Z\nsay Z is X\ncast X\n")
        add("string-length-wide", n, f"put \"{'é' * n}\" into X\nsay X\ncut X into Y\nsay Y\nsay X at {max(n - 1, 0)}\nbuild X up\n")
        add("name-length", n, f"let {'x' * (n + 1)} be 5\nsay {'X' * (n + 1)}\nsay {'x' * n}y\n")
        add("statements", n, "X is 0\n" + "".join(f"build X up\n" for _ in range(min(n, 1025))) + "say X\n")
        add("statements-in-block", n, "X is 0\nif true\n" + "".join(f"build X up\n" for _ in range(min(n, 1025))) + "say X\n\nsay X\n")
        add("input-lines", n, "N is 0\nlisten to X\nuntil X is \"\"\nbuild N up\nlisten to X\n\nsay N\n", "".join(f"line {i}\n" for i in range(n)))
        add("poetic-words", n, f"X is {' '.join('abc' for _ in range(n + 1))}\nsay X\n")
        add("poetic-word-length", n, f"X is {'a' * (n + 1)} bb\nsay X\nY says {'a' * n}\nsay Y\n")
        add("poetic-fraction", n, f"X is a. {' '.join('abc' for _ in range(n))}\nsay X\n")
    for n in M:
        ks = _names(n, "key")
        body = "".join(f"let X at \"{k}\" be {i}\n" for i, k in enumerate(ks))
        add("dict-keys", n, body + "say X\n" + (f"say X at \"{ks[-1]}\"\nsay X at \"{ks[0]}\"\n" if n else "") + "let X at 3 be 1\nsay X\n")
        add("dict-keys-in-error", n, body + "let X at 0 be 1\nbuild X up\n")
        add("dict-keys-in-error-2", n, body + "say 1 at X\n")
        vs = _names(n)
        add("variables", n, "".join(f"let {v} be {i}\n" for i, v in enumerate(vs)) + (f"say {vs[0]} plus {vs[-1]}\n" if n else "say 0\n"))
        add("functions", n, "".join(f"{v} takes X\ngive back X plus {i}\n\n" for i, v in enumerate(vs)) + (f"say {vs[-1]} taking 1\nsay {vs[0]} taking 1\n" if n else "say 0\n"))
        add("locals", n, "F takes X\n" + "".join(f"let {v} be X\n" for v in vs) + (f"give back {vs[-1]}\n" if n else "give back X\n") + "\nsay F taking 1\n" + (f"say {vs[0]}\n" if n else ""))
        add("proper-name-words", n, f"let {' '.join(['Doctor'] * (n + 1))} be 5\nsay {' '.join(['DOCTOR'] * (n + 1))}\nsay {' '.join(['Doctor'] * n)}\n")
    for n in [x for x in S + [100, 119, 120, 121] if x >= 1]:
        add("block-depth", n, "".join("if true\n" for _ in range(n)) + "say 1\n" + "\n" * n + "say 2\n")
        add("loop-depth", n, "X is 0\n" + "".join(f"while X is less than {n}\nbuild X up\n" for _ in range(min(n, 20))) + "say X\n" + "\n" * n + "say 2\n")
        add("call-depth", n, f"Dive takes N\nif N is 0\ngive back 0\n\nlet M be N minus 1\ngive back 1 plus Dive taking M\n\nsay Dive taking {n}\n")
        add("subscript-depth-read", n, f"let X at 0 be 1\nsay X{' at 0' * n}\n")
        add("subscript-depth-write", n, f"let X{' at 0' * n} be 1\nsay X\n")
        add("subscript-depth-index", n, f"let X at 0 be 0\nsay X at {'X at ' * n}0\nlet X at {'X at ' * n}0 be 7\nsay X\n")
        add("expression-depth", n, f"say {'1 plus ' * n}1\nsay {'not ' * n}true\nsay {'-' * n}1\nsay {'1 is ' * n}1\n")
        add("call-nesting", n, f"Id takes X\ngive back X\n\nsay {'Id taking ' * n}5\n")
        add("function-nesting", n, "".join(f"Fun{'x' * i} takes X\n" for i in range(min(n, 40))) + "give back X\n" + "\n" * min(n, 40) + "say 1\n")
        add("else-chain", n, f"X is {n}\n" + "".join(f"if X is {i}\nsay {i}\nelse\n" for i in range(min(n, 60))) + "say \"none\"\n" + "\n" * min(n, 60) + "say 2\n")
    if not quick:
        # (single tokens longer than ~10^4 characters are left out: the model's word scanner is super-linear in the token length)
        for n in HUGE:
            add("string-length", n, f"put \"{'a' * n}\" into X\nsay X\ncut X into Y\nsay Y at {n - 1}\n")
            add("input-line-length", n, "listen to X\nlisten to Y\nsay Y\nsay X is Y\n", "b" * n + "\nsecond\n")
    return out
