"""The value universe U for the VAL suite (exhaustive products, never sampled)."""
import struct
from .common import hx


def fbits(x):
    if x != x:
        return "7ff8000000000000"
    return "%016x" % struct.unpack("<Q", struct.pack("<d", x))[0]


def num(x):
    return f"(f {fbits(x)})"


def s(t):
    return f"(s {hx(t)})"


def arr(items=(), entries=()):
    return "(a (" + " ".join(items) + ") (" + " ".join(f"({k} {v})" for k, v in entries) + "))"


U = "u"
NUL = "n"
T = "(b 1)"
F = "(b 0)"

NUMS = [0.0, -0.0, 1.0, -1.0, 0.5, -2.5, 2.0, 3.0, 10.0, 36.0, 65.0, 255.0, 9007199254740992.0,
        9007199254740994.0, -9007199254740992.0, 1e300, -1e300, 5e-324, 0.1, 1e21, 123456789012345680.0,
        float("nan"), float("inf"), float("-inf"), 55296.0, 1114112.0, 4294967296.0, 1e30, 233.0]
STRS = ["", "a", "abc", "1", " 1", "1.5", "1e3", "inf", "NaN", "-0", "true", "null", "mysterious", "é",
        "a,b,,c", "zz", "Hello World", "10", "1f", "+5", "é,ü", ",", "aXbXXc", "X", "-", "0", ".5", "5.",
        "1_0", "infinity", "٣", "Z", "9223372036854775807", "9223372036854775808", "-9223372036854775808"]

ARRS = [
    arr(),
    arr([num(1.0)]),
    arr([num(1.0), num(2.0)]),
    arr([s("a"), s("b")]),
    arr([s("a"), s("b"), s("c")]),
    arr([arr([num(1.0)]), arr([num(2.0)])]),
    arr([U]),
    arr([], [(s("k"), num(1.0))]),
    arr([num(1.0)], [(s("a"), s("x")), (s("b"), s("y")), (NUL, s("z"))]),
    arr([s("q")], [(s("b"), s("y")), (NUL, s("z")), (s("a"), s("x"))]),
    arr([], [(T, F), (U, NUL)]),
    arr([], [(U, NUL), (T, F)]),
    arr([num(float("nan"))]),
    arr([num(0.0)]),
    arr([num(-0.0)]),
    arr([s("a"), num(1.0)]),
    arr([arr([], [(s("k"), arr([U, NUL]))])]),
    arr([s("x")], [(s("m"), s("t")), (s("z"), s("u")), (s("1"), s("v")), (T, s("w"))]),
]


# rarely met shapes: long strings (ASCII, 2-byte, 4-byte characters), long arrays, numbers at the integer-conversion and
# exponent boundaries, subnormals
LONGS = [
    s("ab" * 200), s("é" * 150), s("🎸x" * 60), s("a," * 300), s("1" * 40), s("9" * 400), s("0." + "3" * 60), s(" " * 70 + "7"),
    s("x" * 1023), s("x" * 1024), s("x" * 1025),
    arr([num(float(i)) for i in range(120)]), arr([s("w%d" % i) for i in range(90)]),
    arr([num(1.0)], [(s("k%d" % i), num(float(i))) for i in range(40)]),
    arr([arr([arr([arr([arr([num(1.0)])])])])]),
    num(2.0 ** 63), num(-(2.0 ** 63)), num(2.0 ** 64), num(2.0 ** 64 - 2048), num(2.0 ** 53 + 2), num(2.0 ** 52 + 0.5), num(2.0 ** 31), num(2.0 ** 32 - 1),
    num(1.7976931348623157e308), num(2.2250738585072014e-308), num(2.225073858507201e-308), num(1e-320), num(-5e-324),
    num(0.1 + 0.2), num(1e15), num(1e16), num(123456789.125), num(1e22), num(1e23), num(0.3), num(100.0), num(1e-5), num(1e-7),
]
# pairs of distinct numbers that are one unit in the last place (or one subnormal step) apart: equal to no tolerance
NEAR = [(0.1 + 0.2, 0.3), (1.0, 1.0 - 2.0 ** -53), (1.0, 1.0 + 2.0 ** -52), (0.0, 5e-324), (0.0, 1e-17), (1e-17, 2e-17), (-0.0, -5e-324),
        (2.0 ** 53, 2.0 ** 53 + 2), (1e16, 1e16 + 2), (0.1 * 3, 0.3), (1.1 + 2.2, 3.3), (100.0, 100.0 - 2.0 ** -46), (1e-300, 1.0000000000000002e-300)]
PARTNERS = [U, NUL, T, F, num(0.0), num(1.0), num(-2.5), s(""), s("a"), s("1"), arr(), arr([num(1.0)])]


def universe(small=False):
    nums = NUMS[:12] if small else NUMS
    strs = STRS[:12] if small else STRS
    arrs = ARRS[:8] if small else ARRS
    return [U, NUL, T, F] + [num(x) for x in nums] + [s(x) for x in strs] + arrs


def kind(v):
    if v == U:
        return "mysterious"
    if v == NUL:
        return "null"
    if v.startswith("(b"):
        return "boolean"
    if v.startswith("(f"):
        return "number"
    if v.startswith("(s"):
        return "string"
    return "array"
