"""C14 — algebraic laws of equality, ordering and logic."""
from . import common as C
from . import suite, values, execsuite, srcvalues
from .proof import prove


def run(chk):
    proved = prove(chk, "C14")
    chk.trusted += TRUSTED
    chk.assumptions += ASSUME
    C.build_driver()
    C.build_harness()
    U = values.universe(small=False)
    if chk.tier == "quick":
        # all kinds and boundaries; the thorough tier adds the long tail of numbers/strings
        U = values.universe(small=False)
    lines, meta = [], {}
    n = 0
    for i, a in enumerate(U):
        for j, b in enumerate(U):
            for op in ("equals", "compare"):
                cid = f"{op[0]}{i}_{j}"
                lines.append(f"(val {cid} {op} {a} {b})")
                meta[cid] = (op, i, j)
            n += 1
    for k, (x, y) in enumerate(values.NEAR):
        for op in ("equals", "compare"):
            lines.append(f"(val n{op[0]}{k}a {op} {values.num(x)} {values.num(y)})")
            lines.append(f"(val n{op[0]}{k}b {op} {values.num(y)} {values.num(x)})")
            lines.append(f"(val n{op[0]}{k}s {op} {values.s(repr(x))} {values.num(y)})")
    for i, a in enumerate(U):
        lines.append(f"(val t{i} truthy {a})")
        for k in (1, 2, 3, -1, -2, 7):
            lines.append(f"(val i{i}_{k} inc {a} {k})")
    chk.rule = ("value universe U (every kind; 0,-0,±1, fractions, 2^53 neighbours, huge, NaN, ±inf; empty/numeric/"
                "padded/non-ASCII strings; empty/nested/equal-length arrays with 0-4 dictionary keys in different "
                "insertion orders), all ordered pairs U×U for equals and compare, U for truthiness and U×k for inc; "
                "a case is non-trivial/distinct by its (operation, kind of a, kind of b, result class) signature; "
                "compound assignments: 12 operator spellings x 16 operand forms (pronouns, calls that change the target, lists, "
                "strings, unknown names) x 5 targets (variable, array element, pronoun, unbound, string), each next to its expansion")
    results, agreed = suite.compare(chk, lines, "val", suite_name="VAL")
    # implementation-only oracles: the laws themselves on the real code's answers
    for side in ("debug", "release"):
        R = results[side]
        bad = 0
        for i, a in enumerate(U):
            for j, b in enumerate(U):
                e_ab, e_ba = R[f"e{i}_{j}"], R[f"e{j}_{i}"]
                c_ab, c_ba = R[f"c{i}_{j}"], R[f"c{j}_{i}"]
                sig = (values.kind(a), values.kind(b), e_ab.split()[0:2][-1], c_ab.split(" ")[0:2][-1])
                chk.distinct.add(sig)
                chk.count(f"pair:{values.kind(a)}x{values.kind(b)}")
                chk.count("compare:" + (" ".join(c_ab.split(" ")[:2]) if c_ab.startswith("ok") else c_ab.split(" ")[0]))
                problems = []
                if e_ab != e_ba:
                    problems.append("a is b differs from b is a")
                dual = {"ok lt": "ok gt", "ok gt": "ok lt", "ok eq": "ok eq", "ok none": "ok none"}
                if c_ab.startswith("ok"):
                    if dual.get(c_ab) != c_ba:
                        problems.append("a<b / b>a duality fails")
                    leq_geq = c_ab == "ok eq"
                    if (e_ab == "ok true") != leq_geq:
                        problems.append("a<=b and a>=b differs from a is b")
                elif c_ab.startswith("err"):
                    if not c_ba.startswith("err"):
                        problems.append("one direction of the comparison is an error, the other is not")
                if problems and bad < 3:
                    bad += 1
                    chk.add_violation("law violated by the implementation: " + "; ".join(problems),
                                      {"oracle": "laws-on-implementation", "profile": side,
                                       "a": C.decode_hex_fields(a), "b": C.decode_hex_fields(b),
                                       "a_sexp": a, "b_sexp": b,
                                       "equals_ab": e_ab, "equals_ba": e_ba, "compare_ab": C.decode_hex_fields(c_ab),
                                       "compare_ba": C.decode_hex_fields(c_ba)})
    # (3) the same laws at the program level: every operator spelling goes through the interpreter
    vals = srcvalues.by_name(srcvalues.QUICK if chk.tier == "quick" else None)
    cases, index = [], {}
    for (na, sa, ea, ka) in vals:
        for (nb, sb, eb, kb) in vals:
            pre = sa + [x for x in sb if x not in sa]
            for key, form in (("eq", f"{ea} is {eb}"), ("ne", f"{ea} isnt {eb}"), ("ne2", f"{ea} is not {eb}"), ("lt", f"{ea} is less than {eb}"),
                              ("gt", f"{ea} is greater than {eb}"), ("le", f"{ea} is as low as {eb}"), ("ge", f"{ea} is as high as {eb}"),
                              ("le_and_ge", f"{ea} <= {eb} and {ea} >= {eb}"), ("nor", f"{ea} nor {eb}"), ("not_or", f"not {ea} or {eb}")):
                index[(na, nb, key)] = len(cases)
                cases.append({"src": "\n".join(pre + [f"say {form}"]) + "\n", "meta": {"a": na, "b": nb, "form": key}})
    recs = execsuite.run(chk, cases, "laws", suite_name="EXEC-laws")
    nbad = 0
    for prof in ("debug", "release"):
        def res(na, nb, key):
            st, out = execsuite.split_out(recs[index[(na, nb, key)]]["impl"].get(prof, ""))
            if st.startswith("err"):
                return "error"
            return bytes.fromhex(out).decode("utf-8", "replace").strip() if out is not None else st
        for (na, _, _, _) in vals:
            for (nb, _, _, _) in vals:
                problems = []
                if res(na, nb, "eq") != res(nb, na, "eq"):
                    problems.append("`a is b` differs from `b is a`")
                neg = {"true": "false", "false": "true", "error": "error"}
                if res(na, nb, "ne") != neg.get(res(na, nb, "eq")) or res(na, nb, "ne2") != neg.get(res(na, nb, "eq")):
                    problems.append("`isnt` / `is not` is not the negation of `is`")
                if res(na, nb, "lt") != res(nb, na, "gt"):
                    problems.append("`a < b` differs from `b > a`")
                if res(na, nb, "le") != res(nb, na, "ge"):
                    problems.append("`a <= b` differs from `b >= a`")
                if res(na, nb, "le") != "error" and res(na, nb, "le_and_ge") != res(na, nb, "eq"):
                    problems.append("`a <= b and a >= b` differs from `a is b`")
                if problems and nbad < 4:
                    nbad += 1
                    chk.add_violation("law violated by the interpreter: " + "; ".join(problems),
                                      {"oracle": "laws-on-programs", "profile": prof, "a": na, "b": nb,
                                       "programs": {k: cases[index[(na, nb, k)]]["src"] for k in ("eq", "le", "ge", "le_and_ge")},
                                       "results": {k: res(na, nb, k) for k in ("eq", "ne", "ne2", "lt", "gt", "le", "ge", "le_and_ge")},
                                       "swapped": {k: res(nb, na, k) for k in ("eq", "lt", "gt", "le", "ge")}})
    # (4) compound assignment is its expansion: both programs through model and implementation, and the
    #     implementation's two outputs compared with each other
    from . import compound
    prs = compound.pairs()
    ccases = []
    for a, b, m in prs:
        ccases.append({"src": a, "meta": dict(m, form="compound")})
        ccases.append({"src": b, "meta": dict(m, form="expanded")})
    crecs = execsuite.run(chk, ccases, "compound", suite_name="EXEC-compound")
    cbad = 0
    for k, (a, b, m) in enumerate(prs):
        for prof in ("debug", "release"):
            ra, rb = crecs[2 * k]["impl"].get(prof, ""), crecs[2 * k + 1]["impl"].get(prof, "")
            pa, pb = execsuite.split_out(ra), execsuite.split_out(rb)
            chk.count("compound:" + (pa[0].split()[0] if pa[0] else "?"))
            if (execsuite.strip_msg(pa[0]), pa[1]) != (execsuite.strip_msg(pb[0]), pb[1]):
                cbad += 1
                if cbad <= 3:
                    chk.add_violation("`let x be op e` differs from `let x be x op e`",
                                      {"oracle": "compound-is-expansion", "profile": prof, "src": a, "expanded": b, "meta": m,
                                       "impl": ra, "impl_expanded": rb})
    chk.samples = [C.decode_hex_fields(l) for l in lines[:3] + lines[len(lines) // 2: len(lines) // 2 + 3]] + [cases[5]["src"]]
    if not proved:
        chk.add_violation("proof obligations of C14 no longer check", chk.proof_failure,
                          no_input=not any(not ni for _, _, ni in chk.violations))


TRUSTED = [
    "Coq 8.16.1 kernel (coqc, full .vo build); vm_compute used in Examples only; no native_compute",
    "axioms: none for the value-law theorems; C14_inc_dec_restores_int and C14_build_knock_restores_int (Proofs/FloatExact.v, via Flocq) depend on the four axioms of Coq's standard library of classical reals: ClassicalDedekindReals.sig_forall_dec, sig_not_dec, FunctionalExtensionality.functional_extensionality_dep, Classical_Prop.classic (as Print Assumptions reports per theorem below)",
    "model Exec/Val.v, Exec/Ops.v hand-written from src/exec/val.rs and produce_val.rs; tied by suite VAL (exhaustive U×U, debug+release)",
    "extraction: ExtrOcamlBasic only; OCaml driver /verif/driver; Rust harness /verif/harness; Python orchestrator",
    "f64 parse/display in the model are ports checked by suite F64, not proved equal to Rust std",
]
ASSUME = [
    "values have pairwise distinct dictionary keys (wf_val), which HashMap guarantees and every model operation preserves",
    "Rust std (HashMap, VecDeque, Rc, str::parse::<f64>, f64 Display) behaves as modelled",
]
