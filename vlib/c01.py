"""C01 — lexing and parsing are total."""
from . import suite, gen_lex, gen_prog, gen_pairs, gen_layout
from .propbase import *
from . import basesuites


def deep_nesting(depths):
    out = []
    for d in depths:
        out.append("say " + " + ".join(["1"] * d) + "\n")
        out.append("say " + "not " * d + "true\n")
        out.append("say " + "-" * d + "1\n")
        out.append("say X" + " at 1" * d + "\n")
        out.append("say " + "roll " * d + "X\n")
        out.append("say " + " is ".join(["1"] * d) + "\n")
        out.append("say 1" + ", 2 * 3" * d + "\n")
        out.append("say F taking " + ", ".join(["G taking 1"] * d) + "\n")
        out.append("".join("if true\n" for _ in range(d)) + "say 1\n" + "\n" * d)
        out.append("".join(f"while X\n" for _ in range(d)) + "break\n" + "\n" * d)
        out.append("".join(f"F takes X\n" for _ in range(min(d, 60))) + "say 1\n")
    return out


def chains():
    """every construct that may repeat, 0..6 times, in every spelling of its link"""
    out = []
    for k in range(0, 7):
        for link in (" is ", " is not ", " isn't ", " is as high as ", " is lower than ", "'s ", " are "):
            out.append("say 1" + (link + "1") * k + "\n")
            out.append("if X" + (link + "2") * k + "\nsay 1\n\n")
        for link in (" plus ", " minus ", " times ", " over ", " with ", " without ", " of ", " and ", " or ", " nor "):
            out.append("say X" + (link + "Y") * k + "\n")
            out.append("say X" + (link + "Y, Z") * k + "\n")
        for link in (" at 1", " at X", " at \"k\""):
            out.append("say X" + link * k + "\n")
            out.append("let X" + link * k + " be 1\n")
        out.append("build X up" + ", up" * k + "\n")
        out.append("knock X down" + " down" * k + "\n")
        out.append("say " + "not " * k + "X\n")
        out.append("say F taking 1" + ", 2" * k + "\n")
        out.append("say F taking 1" + " & 2" * k + "\n")
        out.append("say F taking 1" + ", and 2" * k + "\n")
        out.append("rock X with 1" + ", 2" * k + "\n")
        out.append("F takes X" + " and Y" * min(k, 1) + ", Z" * max(k - 1, 0) + "\nsay X\n\n")
        out.append("say X" + "\nelse" * k + "\n")
        out.append("if X\nsay 1\n" + "else\nsay 2\n" * k + "\n")
        out.append("X is " + "a. " * k + "b\n")
        out.append("X is 5" + "." * k + "\n")
        out.append("say 1" + "," * k + "\n")
        out.append("say 1" + "\n" * k + "say 2\n")
    return out


def trailing(rng, limit=None):
    """a complete statement followed by one more token of every spelling (the fault `one word too many`)"""
    from . import gen_pairs
    stmts = ["say X", "put 1 into X", "let X be 1", "X is 5", "build X up", "knock X down", "turn up X", "turn X up", "turn X down", "turn down X",
             "turn round X", "turn X around", "cut X", "cut X into Y", "cut X into Y with Z", "join X", "cast X", "cast X with 2", "rock X", "rock X with 1",
             "roll X", "roll X into Y", "listen", "listen to X", "say F taking 1", "F taking 1", "break", "continue", "break it down", "take it to the top",
             "give back X", "give X back", "return X", "if X", "while X", "until X", "else", "F takes X", "say X at 1", "let X at 1 be 2", "say it",
             "say 1 is 2", "say not X", "say X plus 1", "say 1, 2", "say \"s\"", "rock X like a stone"]
    sp = gen_pairs.spellings()
    out = []
    for st in stmts:
        for w in sp:
            out.append(f"say 0\n{st} {w}\nsay 9\n")
    if limit is not None and len(out) > limit:
        out = rng.sample(out, limit)
    return out


def run(chk):
    proved = setup(chk, "C01")
    basesuites.run_uni(chk)
    rng = rng_for(chk, 1)
    quick = chk.tier == "quick"
    texts = list(gen_lex.exhaustive(3 if quick else 4))
    texts += gen_lex.soup(rng, 800 if quick else 8000)
    cp = gen_lex.corpus_programs()
    progs, _ = gen_prog.gen_programs(rng.randrange(10 ** 9), 200 if quick else 2000)
    ill, _ = gen_prog.gen_programs(rng.randrange(10 ** 9), 100 if quick else 1000, illtyped=True)
    texts += cp + progs + ill
    texts += [gen_lex.mutate(rng, rng.choice(cp + progs)) for _ in range(600 if quick else 8000)]
    texts += deep_nesting([1, 2, 5, 50, 200] if quick else [1, 2, 3, 5, 20, 50, 100, 200, 300])
    texts += [c["src"] for c in corpus_cases("exec")]
    texts += gen_lex.keyword_texts()
    texts += gen_lex.scale_texts()
    # statement-start tokens as the last token of the source, and every token kind right before EOF
    # what may follow the says keyword: every white space character (ASCII and not), letters of every UTF-8 width, nothing
    for kw in ("says", "said", "say", "SAYS"):
        for after in [" ", "", "\t", "\n", "\r\n", "\x0b", "\x0c", "\u0085", "\u00a0", "\u1680", "\u2000", "\u2003", "\u200a", "\u2028", "\u2029",
                      "\u202f", "\u205f", "\u3000", "\u200b", "\ufeff", "é", "世", "🎸", ",", ".", "'", "(c)", "\""]:
            texts += [f"Tommy {kw}{after}hello world\n", f"If true\nMy world at 1 {kw}{after}we'd never\n", f"Tommy {kw}{after}"]
    # every token spelling next to every separator class next to a token spelling, in 32 statement contexts
    texts += gen_pairs.pair_texts(rng, per_cell=1 if quick else 3, limit=9000 if quick else None)
    texts += chains() + trailing(rng, limit=6000 if quick else None)
    # layout variants of block-structured programs (inserted lines of every kind, line endings, closing by end of file)
    texts += [t for (_, t) in gen_layout.variants(quick, rng)]
    for w in gen_lex.WORDS:
        texts += [w, "say 1\n" + w, "say 1\n" + w + " (bye)", "x is 5\n" + w + "\n"]
    lex_lines = [f"(lex l{i} tokens {C.hx(t)})" for i, t in enumerate(texts)]
    par_lines = [f"(exec p{i} parse {C.hx(t)})" for i, t in enumerate(texts)]
    r1, _ = suite.compare(chk, lex_lines, "lex", project=lambda x: x, suite_name="LEX", crash_is_violation=True)
    r2, _ = suite.compare(chk, par_lines, "parse", project=lambda x: x, suite_name="PARSE", crash_is_violation=True)
    for i, t in enumerate(texts):
        r = r2["debug"].get(f"p{i}", "")
        kind = r.split(" ")[0] + (":" + r.split(" ")[1] if r.startswith("err") else "")
        chk.count("parse:" + kind)
        chk.distinct.add((kind, len(t) if len(t) < 6 else hash(t) % 100003))
        for side in ("debug", "release"):
            v = r2[side].get(f"p{i}", "")
            if v in ("timeout", "nonterminating") or r1[side].get(f"l{i}", "") in ("timeout", "nonterminating"):
                chk.add_violation(f"the front end did not terminate ({side})", {"oracle": "terminates", "profile": side, "src": t})
    chk.samples = [repr(t) for t in texts[100:103] + texts[-3:]]
    chk.rule = ("exhaustive strings up to length 3 (quick) / 4 (thorough) over the 16-symbol critical alphabet, token soup with "
                "multi-line strings/comments, suffixes, non-ASCII letters/digits/whitespace/symbols, /repo/tests programs and "
                "byte-level mutations of them, generated programs, nesting up to 200 (300) levels, every token kind as the "
                "last token; every white space character / letter width / punctuation mark right after every spelling of `says`; "
                "adjacent-token pairs (490 spellings x 27 separator classes, each side, in 32 statement contexts); layout variants of "
                "ten block-structured programs (an inserted line of 20 kinds at every boundary, 15 line-ending conventions, blank lines "
                "removed / tripled, truncation at every line, indentation, two statements joined by 7 separators); lexer tokens and parser result (tree or error code+line+rendered message) compared model vs "
                "implementation in debug and release; any panic, abort, hang or render failure is a violation. "
                "distinct = (result kind, text identity)")
    conclude(chk, "C01", proved)
