"""Correspondence comparison: model vs implementation (debug and release) on the same cases."""
import re
from . import common as C


def canon(side, text):
    """Canonical outcome text: crash classes merged; everything else verbatim."""
    if side == "model":
        if text.startswith("panic") or text.startswith("ub "):
            return "crash"
    else:
        if text == "panic" or text == "tool-died" or text.startswith("panic"):
            return "crash"
    return text


def strip_message(text):
    """Projection that ignores the wording of error messages (keeps the variant)."""
    m = re.match(r"(err \S+)( #[0-9a-f]*)?$", text)
    return m.group(1) if m else text


def compare(chk, lines, tag, project=strip_message, describe=None, sides=("model", "debug", "release"),
            timeout=900, suite_name=None, max_report=5, crash_is_violation=False):
    """Runs the cases and records disagreements as violations of chk's property.
    Returns (results, agreed_ids)."""
    suite_name = suite_name or tag
    results, died = C.run_cases(lines, f"{chk.pid}_{tag}", sides=sides, timeout=timeout)
    first = lines[sides[0]] if isinstance(lines, dict) else lines
    by_id = {C.case_id(l): l for l in first}
    n_bad = 0
    agreed = []
    stats = {"cases": len(first), "mismatch": 0, "discarded_overbudget": 0, "impl_crash": 0, "drift": 0}
    for cid, line in by_id.items():
        m = canon("model", results["model"].get(cid, "tool-died")) if "model" in sides else None
        impl = {s: canon(s, results[s][cid]) for s in sides if s != "model"}
        if m is not None and (m.startswith("driver-error") or m == "tool-died" or m.startswith("unknown")):
            n_bad += 1
            stats["mismatch"] += 1
            if n_bad <= max_report:
                chk.add_violation(f"{suite_name}: the model driver failed on a case",
                                  {"suite": suite_name, "case": line, "model": m, "impl": impl,
                                   "what": "correspondence machinery could not evaluate the model"}, no_input=True)
            continue
        if m in ("overbudget", "outoffuel") and all(v in ("overbudget", m) for v in impl.values()):
            stats["discarded_overbudget"] += 1
            continue
        bad = False
        for s, v in impl.items():
            if v == "crash":
                stats["impl_crash"] += 1
            if m is not None and project(v) != project(m):
                bad = True
            elif m is not None and v != m:
                stats["drift"] += 1
                if len(chk.drift) < 20:
                    chk.drift.append({"suite": suite_name, "case": C.decode_hex_fields(line), "model": C.decode_hex_fields(m), s: C.decode_hex_fields(v)})
            if crash_is_violation and v == "crash":
                bad = True
        if len(set(impl.values())) > 1 and not bad:
            # debug and release disagree with each other inside the projection?
            if len({project(v) for v in impl.values()}) > 1:
                bad = True
        if bad:
            n_bad += 1
            stats["mismatch"] += 1
            if n_bad <= max_report:
                chk.add_violation(
                    f"{suite_name}: implementation and model disagree",
                    {"suite": suite_name, "case": line, "case_readable": C.decode_hex_fields(line),
                     "model": C.decode_hex_fields(m or ""), "impl": {k: C.decode_hex_fields(v) for k, v in impl.items()},
                     "what": describe(line) if describe else ""})
        else:
            agreed.append(cid)
    for side, ds in died.items():
        for (k, rc, tail, cid) in ds:
            chk.notes.append(f"{suite_name}: {side} shard {k} exited with {rc} on case {cid}: {tail[-200:]}")
    chk.evals += len(first)
    chk.suites[suite_name] = stats
    return results, agreed
