"""Adjacent-token pairs: every token spelling next to every separator class next to a token spelling, in a few statement
contexts (pairwise coverage of (left token, separator) and (separator, right token); the third component is drawn from
the PRNG).  Round 7 of the seeded changes showed the kind of input this is for: a multi-byte white space character glued
to a keyword, a keyword alias where it is a plain word, a number right after a worded operator."""
from . import gen_lex

SEPARATORS = ["", " ", "  ", "\t", "\n", "\r\n", ", ", ". ", "'", "' ", " '", "\u00a0", "\u3000", "\u2003", "\u0085", "\u200b", "\ufeff", "\u2028",
              " (c) ", "(c)", "; ", "! ", "? ", " & ", "-", "\u00e9", "1"]

# (prefix, suffix): where the pair stands
CONTEXTS = [("", "\n"), ("Tommy ", " 5\n"), ("say ", "\n"), ("X is ", "\n"), ("X says ", "\n"), ("if true\n", "\n\n"), ("F takes ", "\nsay 1\n\n"),
            ("put 1 ", " X\n"), ("rock X ", " 2\n"), ("say 1 ", " 2\n"), ("Tommy was a ", " dancer\n"), ("cut X ", "\n"), ("", ""),
            # roles in which a keyword is a plain word or part of a name, and operator / argument positions
            ("my ", " is 5\n"), ("Doctor ", " is 5\n"), ("X is a ", ". 5 b\n"), ("X says a ", " b\n"), ("let X be ", " 5\n"), ("say X ", " Y\n"),
            ("say F taking ", ", 2\n"), ("rock X like ", "\n"), ("let X at ", " be 5\n"), ("cast X with ", "\n"), ("turn ", " X\n"), ("knock X ", ", down\n"),
            ("build X ", ", up\n"), ("listen ", " X\n"), ("give ", " X\n"), ("while X ", " 5\nbreak\n\n"), ("if X ", " Y\nsay 1\nelse\nsay 2\n\n"),
            ("say 1\nelse ", "\n"), ("X is 5\n", " it\n")]


def spellings():
    out = []
    for w in gen_lex.keyword_aliases():
        out += sorted({w, w.upper(), w.capitalize()})
    out += [w for w in gen_lex.WORDS if w.strip() and len(w) < 14]
    out += ["5", "-5", "40", "1e3", "0.5", "lovestruck", "Tommy", "the night", "Big Daddy", "\"s\"", "x", "X"]
    seen, res = set(), []
    for w in out:
        if w not in seen:
            seen.add(w)
            res.append(w)
    return res


def pair_texts(rng, per_cell=1, limit=None):
    sp = spellings()
    texts = []
    for a in sp:
        for s in SEPARATORS:
            for _ in range(per_cell):
                pre, suf = rng.choice(CONTEXTS)
                texts.append(pre + a + s + rng.choice(sp) + suf)
                pre, suf = rng.choice(CONTEXTS)
                texts.append(pre + rng.choice(sp) + s + a + suf)
    if limit is not None and len(texts) > limit:
        texts = rng.sample(texts, limit)
    return texts
