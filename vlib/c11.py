"""C11 — poetic literals denote the number or string their words spell."""
import math, re, struct
from fractions import Fraction
from . import execsuite, suite
from .propbase import *
from . import basesuites

WORDS = ["a", "an", "ice", "cold", "sweet", "dreams", "wildest", "daydream", "lovestruck", "ladykiller", "rock'n'roll", "o'clock",
         "nothing's", "we're", "it's", "mañana", "über", "crazy", "x", "antidisestablishmentarianism", "supercalifragilistic",
         "and", "the", "into", "up", "down", "back", "like", "it", "is", "say", "with", "nothing", "true", "mysterious", "big",
         "mother-in-law", "well-to-do", "catch-22", "all-consuming", "run-down", "boys'", "'tis", "rock'", "a'b'c", "5", "42", "007"]


def word_len(w):
    return sum(1 for c in w if c != "'")


def expected_value(text):
    """the decimal numeral spelled by a poetic literal text (words separated by spaces; . and , handled)"""
    digits, dot = [], None
    # tokens: words (with hyphens/apostrophes inside), periods, commas
    for tok in re.findall(r"[^\s.,]+|[.,]", text):
        if tok == ".":
            if dot is None:
                dot = len(digits)
        elif tok == ",":
            continue
        else:
            digits.append(word_len(tok) % 10)
    if dot is None:
        dot = len(digits)
    val = Fraction(0)
    for i, d in enumerate(digits):
        val += Fraction(d) * Fraction(10) ** (dot - 1 - i)
    return val, digits, dot


def ulps_apart(x, f):
    """distance between the float x and the exact Fraction f in units of x's ulp"""
    if x == 0:
        return 0 if f == 0 else float("inf")
    fx = Fraction(x)
    ulp = Fraction(math.ulp(x))
    return abs(fx - f) / ulp


def run(chk):
    proved = setup(chk, "C11")
    basesuites.run_f64(chk, 1500 if chk.tier == "quick" else 20000)
    rng = rng_for(chk, 11)
    quick = chk.tier == "quick"
    cases, metas = [], []
    n = 500 if quick else 6000
    for _ in range(n):
        k = rng.choice([1, 2, 3, 4, 5, 6, 8, 12, 16, 20, 24, 30])
        ws = [rng.choice(WORDS) for _ in range(k)]
        if ws[0].split("'")[0] in ("nothing", "true", "mysterious", "5", "42", "007", "it"):
            ws[0] = "a"          # a literal word / number / pronoun first (also before 's: `nothing's 007` is the
                                 # comparison `nothing is 007`) would make it an expression
        text = ws[0]
        for w in ws[1:]:
            c = rng.random()
            if c < 0.12:
                text += ". " + w
            elif c < 0.2:
                text += ", " + w
            elif c < 0.24:
                text += "." + w
            else:
                text += " " + w
        if rng.random() < 0.1:
            text += "."
        head = rng.choice(["My dream is ", "Tommy was ", "the answer's ", "They are ", "Johnny B Goode were "])
        name = head.rsplit(" ", 2)[0] if not head.endswith("'s ") else "the answer"
        name = {"My dream is ": "my dream", "Tommy was ": "Tommy", "the answer's ": "the answer", "They are ": None, "Johnny B Goode were ": "Johnny B Goode"}[head]
        if name is None:
            src = f"put 1 into X\nThey are {text}\nsay X\n"
        else:
            src = f"{head}{text}\nsay {name}\n"
        cases.append({"src": src, "meta": {"literal": text}})
        cases.append({"src": f"rock Q like {text}\nsay Q at 0\n", "meta": {"literal": text, "push": True}})
    # right-hand sides that are ordinary expressions
    for rhs in ["5", "-5", "- 5", "\"str\"", "mysterious", "nothing", "true", "empty", "-1 plus 2", "5 times 3", "-x", "minus five", "nowhere near", "ok go"]:
        cases.append({"src": f"put 2 into x\nTommy is {rhs}\nsay Tommy\n", "meta": {"rhs": rhs}})
    # poetic strings: exact text after `says ` up to the end of the line
    texts = ["hello world", "  leading spaces", "trailing  ", "it's 5 o'clock, (somewhere)!", "ünïcödé ✓", "a \"quoted\" word", "1 + 2", "", " ",
             "says says", "x (closed) y \"closed\" z", "tab\there", "semi;colon:!?", "'n'", "don't", "UPPER lower"]
    for t in texts:
        for kw in ("says", "said", "say"):
            cases.append({"src": f"Tommy {kw} {t}\nsay Tommy\nsay \"next\"\n", "meta": {"string": t, "kw": kw}})
            cases.append({"src": f"Tommy {kw} {t}", "meta": {"string": t, "kw": kw, "eof": True}})
    for first in ("without", "minus", "Without", "MINUS", "-", "- ", "without -", "minus minus", "with", "plus"):
        for second in ("7", "100", "0.5", "007", "1e3", "seven", "7 times over", "100 degrees", ".5", "5.", "-7"):
            for head in ("X is ", "X was ", "X's ", "rock X like ", "rock X with "):
                cases.append({"src": f"put 1 into X\n{head}{first} {second}\nsay X\nsay X at 0\n", "meta": {"minus-number": first + " " + second}})
    # what follows `says`: exactly one space, then the text (other white space is not a separator)
    for sep in ("\u00a0", "\u2003", "\t", "  ", "", "\u00a0 ", " \u00a0", "\u3000x", "é", "\r"):
        for kw in ("says", "said", "say"):
            cases.append({"src": f"Tommy {kw}{sep}hello world\nsay Tommy\n", "meta": {"says-separator": sep}})
    # every token spelling (keyword aliases in three cases, contractions, 'n', numbers, symbols, non-ASCII words) as an element of a
    # poetic number literal: first, in the middle, last, after the decimal point, in a `rock ... like` literal
    from . import gen_pairs
    sp = [w for w in gen_pairs.spellings() if "\n" not in w and '"' not in w and "(" not in w]
    for i, w in enumerate(sp):
        forms = [f"X is salt {w} pepper\nsay X\n", f"X is {w}\nsay X\n", f"X is {w} sync\nsay X\n", f"X was lovely {w}\nsay X\n",
                 f"X is a. b {w} ccc\nsay X\n", f"rock X like fish {w} chips\nsay X at 0\n"]
        for j, f in enumerate(forms):
            if quick and (i + j) % 3:
                continue
            cases.append({"src": f, "meta": {"poetic-element": w}})
    recs = execsuite.run(chk, cases, "poetic", suite_name="EXEC-poetic")
    known_finding_f12(chk)
    bad = 0
    for r in recs:
        m = r["case"]["meta"]
        for prof in ("debug", "release"):
            st, out = execsuite.split_out(r["impl"].get(prof, ""))
            if out is None:
                continue
            text = bytes.fromhex(out).decode("utf-8", "replace")
            problem = None
            if "literal" in m and st == "ok":
                val, digits, dot = expected_value(m["literal"])
                if dot > 300:
                    continue
                first = text.split("\n")[0]
                try:
                    x = float(first)
                except ValueError:
                    problem = f"printed {first!r}, not a number"
                    x = None
                if x is not None:
                    if val.denominator == 1 and val < 2 ** 53:
                        if Fraction(x) != val:
                            problem = f"integer literal: printed {first}, the words spell {val}"
                    elif ulps_apart(x, val) > 8:
                        problem = f"printed {first}, the words spell {float(val)!r} ({ulps_apart(x, val):.1f} ulp apart)"
                    chk.count("poetic-ints" if val.denominator == 1 else "poetic-fractions")
            elif "string" in m and st == "ok" and "(" not in m["string"].replace("(somewhere)", "").replace("(closed)", "") :
                want = m["string"]
                got = text.split("\n")[0] if not m.get("eof") else text.rstrip("\n")
                if not m.get("eof") and got != want:
                    problem = f"poetic string stored {got!r}, the line says {want!r}"
            if problem:
                bad += 1
                if bad <= 4:
                    chk.add_violation("poetic literal: " + problem, {"oracle": "poetic-denotation", "profile": prof, "src": r["case"]["src"], "impl": C.decode_hex_fields(r["impl"].get(prof, ""))[:200]})
    record_exec(chk, recs, sig=lambda r: (str(r["case"]["meta"])[:80],))
    chk.rule = ("word sequences of 1..30 words from a pool with apostrophes, 's/'re suffixes, hyphenated words whose parts are "
                "keywords or digits, keywords as words, non-ASCII, multiples of ten letters, periods and commas anywhere; as "
                "poetic assignment (every `is` spelling, pronoun target) and as `rock .. like`; right-hand sides that start with "
                "a literal word or negative number; `says/said/say` strings with quotes, parentheses closed on the line, spaces, "
                "end of input; oracle: printed value vs the exact decimal numeral spelled by the word lengths (exact for "
                "integers < 2^53, within 8 ulp otherwise), stored string = text of the line; and model = implementation")
    conclude(chk, "C11", proved)


def known_finding_f12(chk):
    kf = C.load_known_findings()
    for f in kf.get("findings", []):
        if f["id"] == "F12" and f["property"] == "C11":
            line = f"(exec kf run {C.hx(f['input'])} # none none)"
            res, _ = C.run_cases({"debug": [line]}, "C11_kf")
            st, out = execsuite.split_out(res["debug"]["kf"])
            if out is not None and bytes.fromhex(out) == b"":
                chk.known.append(f"F12: {f['what']} (input {f['input']!r} prints nothing)")
        if f["id"] == "F15" and f["property"] == "C11":
            words = " ".join(["lovestruck"] + ["a"] * 311)
            line = f"(exec kf2 run {C.hx('X is ' + words + chr(10) + 'say X' + chr(10))} # none none)"
            res, _ = C.run_cases({"debug": [line]}, "C11_kf2")
            st, out = execsuite.split_out(res["debug"]["kf2"])
            if out is not None and bytes.fromhex(out).startswith(b"NaN"):
                chk.known.append(f"F15: {f['what']} (a 312-digit literal starting with a ten-letter word prints NaN)")
