"""C08 — input and output happen once each, in program order, and I/O faults are errors."""
from . import execsuite
from .propbase import *

PROGRAMS = [
    "say \"hello world\"\nlisten to X\nsay X\nlisten\nlisten to Y\nsay Y plus \"!\"\n",
    "listen to Apex\nlisten to B\nsay B\nsay Apex\nsay 42\n",
    "put 0 into N\nwhile N is less than 4\nbuild N up\nsay N\nlisten to L\nsay L\n\nsay \"done\"\n",
    "listen\nlisten\nsay 1\nlisten to X\nsay X\n",
    "say \"ünïcödé ✓\"\nlisten to X\nsay X\nsay \"\"\nsay mysterious\n",
    "Echo takes T\nsay T\nlisten to U\ngive back U\n\nsay Echo taking 1\nsay Echo taking Echo taking 2\n",
    "listen to Arr at 0\nlisten to Arr at \"k\"\nsay Arr at 0\nsay Arr at \"k\"\nsay Arr\n",
    "listen to it\n",
    "say 1\nsay 2\nsay X\nsay 3\n",
    # texts that themselves end in (or consist of) line feeds and carriage returns: still text + exactly one terminator
    "say \"line\n\"\nsay \"a\n\n\"\nsay \"\n\"\nlet X be 10\ncast X\nsay X\nsay \"a\" with X\nsay X with X\nlet R be 13\ncast R\nsay R\nsay \"r\" with R with X\nsay \"end\"\n",
    "listen to X\nsay X\nsay X with \"\n\"\nsay \"\"\nsay \" \"\nsay \"\t\"\n",
]
INPUTS = ["", "one\ntwo\nthree\n", "no newline at end", "\n\nblank lines\n\n", "ünï\nçödé\n", "a\r\nb\r\n", "x" * 40 + "\n" + "y" * 10,
          "trailing  \n\ttabs\t\n   \nnbsp\u00a0\n  lead\n", " \u2003\u3000\n\x0b\x0c\n\r\r\n"]


LONG_INPUTS = ["a" * 70000 + "\nsecond\nthird\n", "\u20ac" * 30000 + "\nsecond\nthird\n", "x" * 65535 + "\ny\n", "x" * 65536 + "\ny\n", "x" * 131073 + "\n\nz"]
LONG_PROGRAM = "listen to Apex\nlisten to Second\nsay Second\nlisten to Third\nsay Third\nsay Apex is Second\n"


def run(chk):
    proved = setup(chk, "C08")
    rng = rng_for(chk, 8)
    quick = chk.tier == "quick"
    gen = exec_cases(chk, 25 if quick else 250, focus={"say": 8, "listen": 6, "loop": 2, "if": 1}, salt=88)
    programs = PROGRAMS + [g["src"] for g in gen]
    long_cases = [{"src": LONG_PROGRAM, "stdin": i} for i in LONG_INPUTS]
    base = long_cases + [{"src": p, "stdin": i} for p in programs for i in (INPUTS if p in PROGRAMS else [g["stdin"] for g in gen if g["src"] == p][:1] + INPUTS[1:3])]
    # fault-free runs first: output length and input length bound the fault positions
    free = execsuite.run(chk, base, "free", suite_name="IO-faultfree")
    cases = []
    for r in free:
        d = r["impl"].get("debug", "")
        st, out = execsuite.split_out(d)
        if out is None:
            continue
        total = len(out) // 2
        inlen = len(r["case"]["stdin"].encode("utf-8"))
        wbs = list(range(0, total + 1))
        rfs = list(range(0, inlen + 2))
        if quick or len(wbs) > 400 or len(rfs) > 400:
            # (long inputs / outputs: a sample of positions plus the ends and the 64 KiB boundaries, in both tiers)
            edge_w = [x for x in (0, total, total - 1, 65535, 65536, 65537) if 0 <= x <= total]
            edge_r = [x for x in (0, inlen, inlen + 1, 65535, 65536, 65537) if 0 <= x <= inlen + 1]
            nw, nr = (6, 5) if quick else (24, 24)
            wbs = sorted(set(rng.sample(wbs, min(len(wbs), nw)) + (edge_w if not quick or len(wbs) <= 400 else [0, total])))
            rfs = sorted(set(rng.sample(rfs, min(len(rfs), nr)) + (edge_r if not quick or len(rfs) <= 400 else [0, inlen, inlen + 1])))
        for wb in wbs:
            cases.append({"src": r["case"]["src"], "stdin": r["case"]["stdin"], "wb": wb, "rf": None, "meta": {"total_out": total, "free_out": out, "free_status": st}})
        for rf in rfs:
            cases.append({"src": r["case"]["src"], "stdin": r["case"]["stdin"], "wb": None, "rf": rf, "meta": {"total_out": total, "free_out": out, "free_status": st}})
        if not quick:
            for _ in range(4):
                cases.append({"src": r["case"]["src"], "stdin": r["case"]["stdin"], "wb": rng.choice(wbs), "rf": rng.choice(rfs), "meta": {"total_out": total, "free_out": out, "free_status": st}})
    recs = execsuite.run(chk, cases, "faults", suite_name="IO-faults")
    bad = 0
    for r in recs:
        m = r["case"]["meta"]
        for prof in ("debug", "release"):
            st, out = execsuite.split_out(r["impl"].get(prof, ""))
            problem = None
            if out is None:
                problem = f"no result: {r['impl'].get(prof)}"
            else:
                wb = r["case"].get("wb")
                if not m["free_out"].startswith(out):
                    problem = "output under a fault is not a prefix of the fault-free output"
                elif wb is not None and r["case"].get("rf") is None:
                    if wb < m["total_out"]:
                        if len(out) // 2 != wb:
                            problem = f"writer accepted {len(out) // 2} bytes, its budget was {wb} (< total {m['total_out']})"
                        elif not st.startswith("err IOError"):
                            problem = f"the write fault did not stop execution with an I/O error: {st[:40]}"
                    elif out != m["free_out"] or execsuite.strip_msg(st) != execsuite.strip_msg(m["free_status"]):
                        problem = "a budget that is never exceeded changed the behaviour"
            if problem:
                bad += 1
                if bad <= 4:
                    chk.add_violation("I/O: " + problem, {"oracle": "io-faults", "profile": prof, "src": r["case"]["src"], "stdin": r["case"]["stdin"],
                                      "write_budget": r["case"].get("wb"), "read_fault": r["case"].get("rf"), "impl": C.decode_hex_fields(r["impl"].get(prof, ""))[:300],
                                      "fault_free_output_hex": m["free_out"][:200]})
    record_exec(chk, recs, sig=lambda r: (hash(r["case"]["src"]) % 10007, r["case"].get("wb"), r["case"].get("rf"), outcome_class(r["impl"].get("debug", ""))))
    chk.rule = ("say/listen programs (hand-written + generated) x input texts (empty, no final newline, blank lines, non-ASCII, CRLF, leading/trailing spaces, tabs and Unicode spaces, "
                "long lines) x every writer byte budget 0..total and every reader fault position 0..len+1 (sampled in quick); "
                "oracles on the implementation: bytes received are exactly min(budget,total) and a prefix of the fault-free output, "
                "a fault yields an I/O error, a budget never exceeded changes nothing; plus model = implementation on bytes and "
                "outcome (the reader fault model is in bytes: a listen fails iff it needs a byte at or beyond the fault position)")
    conclude(chk, "C08", proved)
