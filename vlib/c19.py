"""C19 — lint reports are complete, ordered by line, and linting never fails."""
import re
from . import suite, gen_prog
from .propbase import *

FIXED = [
    "shout x\nlet x be 5\nshout x\n", "shout x\nlet x be x with y with y\n", "polly taking x, x\n", "shout y\nshout polly taking my heart, my heart\n",
    "X is 5\nPut X times X times X into Y\nSay Y\n", "x is 1\nsay x\nsay X\nsay x\n", "say my heart\nsay My Heart\nsay my heart\nsay my heart\n",
    "F takes x\nsay x\nsay x\ngive back x\n\nF taking F taking x\nsay F\n", "put 5 into x\nput 6 into x\nif x\nput 7 into x\nelse\nput 8 into x\n\n",
    "let x at x be x\nrock x with x, x\nroll x into x\ncut x into x with x\nturn up x\nbuild x up\nlisten to x\n",
    "put -5 into x\nput 0 over 0 into x\nput -0 into x\nrock x with -0\nput \"a\nb\" into x\n",
]


def many_diags():
    """reports large enough that an unstable or size-dependent sort shows: two diagnostics per line (one from each pass)"""
    out = []
    for n in (8, 11, 12, 17, 21, 25, 33, 64):
        out.append("put 5 into x\n" * n)
        out.append("".join(f"put {i} into x\nsay x\n" for i in range(n)))
        out.append("".join(f"let y be {i}\nput {i} into y\n" for i in range(n)) + "shout y\nshout y\n")
        out.append("if true\n" + "put 1 into it\nput 5 into x\n" * n + "\n")
    return out


CALLEE = [
    "polly wants a cracker\ngive a cracker back\n\nshout polly taking polly\n",
    "polly wants a cracker\ngive a cracker back\n\npolly taking 7\nshout polly\n",
    "polly wants a cracker\ngive a cracker back\n\nshout polly taking 1, polly\nshout polly\n",
    "polly wants x\ngive x back\n\nput polly taking polly taking 1 into polly\nsay polly\n",
    "polly wants x\ngive x back\n\nshout x\nshout polly taking x\nshout x\n",
    "polly wants x\ngive x back\n\nshout polly taking 1\nshout polly taking 2\n",
]


def run(chk):
    proved = setup(chk, "C19")
    rng = rng_for(chk, 19)
    quick = chk.tier == "quick"
    gen, stats = gen_prog.gen_programs(rng.randrange(10 ** 9), 400 if quick else 5000)
    ill, _ = gen_prog.gen_programs(rng.randrange(10 ** 9), 150 if quick else 2000, illtyped=True)
    for k, v in stats.items():
        chk.count("gen:" + k, v)
    from . import gen_pronoun
    mentions = [c["src"] for c in gen_pronoun.programs(quick, rng)]
    for rhs in ("5 with X", "2 with Y", "2 times X, X", "nothing plus X", "true and X", "5 at X", "5 is X", "not X", "5 minus X minus X", "\"s\" with X"):
        for head in ("X is ", "Y is ", "X was ", "X's ", "the night is "):
            mentions += [f"{head}{rhs}\nSay X\n", f"Y is 1\n{head}{rhs}\nSay X\nSay Y\n", f"Say X\n{head}{rhs}\n", f"X is 1\n{head}{rhs}\n{head}{rhs}\n"]
    progs = FIXED + CALLEE + many_diags() + mentions + gen + ill
    lines = [f"(ana l{i} lint {C.hx(p)})" for i, p in enumerate(progs)]
    res, _ = suite.compare(chk, lines, "lint", project=lambda x: x, suite_name="LINT", crash_is_violation=True)
    bad = 0
    for i, p in enumerate(progs):
        for side in ("debug", "release"):
            r = res[side].get(f"l{i}", "")
            if r.startswith("parse-error"):
                continue
            ds = [int(m.group(1)) for m in re.finditer(r"\(diag (\d+) ", r)]
            if ds != sorted(ds):
                bad += 1
                if bad <= 3:
                    chk.add_violation("diagnostics are not ordered by line", {"oracle": "sorted-by-line", "profile": side, "src": p, "lines": ds})
        chk.distinct.add((hash(p) % 1000003, res["debug"].get(f"l{i}", "").count("(diag ")))
        chk.count("diags", res["debug"].get(f"l{i}", "").count("(diag "))
    chk.samples = [progs[0], progs[len(FIXED)]]
    chk.rule = ("hand-written programs for ties between passes on one line, repeated mentions inside call arguments, three mentions "
                "in a row, name kinds and cases, every statement kind mentioning one variable, values without poetic spelling; plus "
                "generated well-typed and ill-typed programs; oracle: the run returns (no panic, debug and release) with lines "
                "non-decreasing; the exact diagnostic list (line, issue, suggestions, in order: ties in pass order) = model, whose "
                "repeated-identifier pass is the specification `mention i reported iff same spelling as mention i-1 and not a callee`")
    conclude(chk, "C19", proved)
