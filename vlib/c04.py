"""C04 — control flow follows the program text."""
import itertools
from . import execsuite
from .propbase import *

CONDS = ["true", "false", "mysterious", "null", "0", "1", "\"\"", "\"x\"", "X", "X is 2", "X is less than 2", "not X", "roll Q"]


def skeletons(rng, n, depth=3):
    """nested if/else/while/until/break/continue skeletons with say markers"""
    out = []
    for _ in range(n):
        marker = itertools.count(1)

        def block(d, in_loop):
            lines = []
            for _ in range(rng.randint(1, 3)):
                c = rng.random()
                if c < 0.35 or d >= depth:
                    lines.append(f"say {next(marker)}")
                elif c < 0.6:
                    lines.append(f"if {rng.choice(CONDS)}")
                    lines += block(d + 1, in_loop)
                    if rng.random() < 0.5:
                        lines.append("else")
                        lines += block(d + 1, in_loop)
                    lines.append("")
                elif c < 0.68:
                    # a loop whose condition has a side effect (pops a queue): evaluated once per iteration, no more
                    qn = "Que" + "".join(chr(97 + int(ch)) for ch in str(next(marker)))
                    lines.append(f"rock {qn} with 1, 2, 0, 3, 4")
                    lines.append(rng.choice([f"while roll {qn}", f"until not roll {qn}"]))
                    lines += block(d + 1, True)
                    lines.append("")
                    lines.append(f"say {qn}")
                    lines.append(f"roll {qn} into Nxt")
                    lines.append("say Nxt")
                elif c < 0.8:
                    ctr = "Ctr" + "".join(chr(97 + int(ch)) for ch in str(next(marker)))
                    lines.append(f"put 0 into {ctr}")
                    kind = rng.choice(["while", "until"])
                    n_it = rng.randint(0, 3)
                    lines.append(f"{kind} {ctr} is less than {n_it}" if kind == "while" else f"until {ctr} is as great as {n_it}")
                    lines.append(f"build {ctr} up")
                    lines += block(d + 1, True)
                    lines.append("")
                elif in_loop:
                    lines.append(f"if {rng.choice(CONDS)}")
                    lines.append(rng.choice(["break", "break it down", "continue", "take it to the top"]))
                    lines.append("")
                else:
                    lines.append(f"build X up")
            return lines
        src = "\n".join(["put 1 into X", "rock Q with 1, 0, 2, false"] + block(0, False) + ["say \"end\"", "say X"]) + "\n"
        out.append({"src": src, "meta": "skeleton"})
    return out


FAILING = ["say Nope", "Boom taking 1", "Echo taking 1, 2", "Nofunc taking 1", "say mysterious is less than true",
           "cut 5 into Zed", "join 5 into Zed", "join Str", "turn up \"x\"", "say 5 at 1", "let Five at 1 be 3", "roll 5", "build Str up",
           "say Echo taking Nope", "put Boom taking 1 into Zed", "say 1 over 0", "cast \"x\" into Zed with 99", "cast Str with 99", "listen to Zed",
           "say it", "rock Str with Boom taking 2", "let Str at Boom taking 3 be 1", "Echo taking Boom taking 4"]
CONTEXTS = [
    ("top", "{F}\n"),
    ("if", "if true\n{F}\nsay \"same block\"\n\n"),
    ("else", "if false\nsay 0\nelse\n{F}\nsay \"same block\"\n\n"),
    ("loop", "put 0 into Ctr\nwhile Ctr is less than 3\nbuild Ctr up\nsay Ctr\n{F}\n\n"),
    ("until+if", "put 0 into Ctr\nuntil Ctr is 3\nbuild Ctr up\nif Ctr is 2\n{F}\n\nsay Ctr\n\n"),
    ("in a function called as a statement", "Wrap takes Yy\nsay \"wrap\"\n{F}\nsay \"wrap end\"\n\nWrap taking 1\n"),
    ("in a function called in an expression", "Wrap takes Yy\n{F}\ngive back 1\n\nsay Wrap taking 1\n"),
    ("in a function called as a statement in a loop in an if", "Wrap takes Yy\n{F}\n\nput 0 into Ctr\nif true\nwhile Ctr is less than 2\nbuild Ctr up\nWrap taking Ctr\nsay Ctr\n\n\n"),
]


def error_stops_cases():
    """every statement form that can fail x every position it can stand in: the run must stop right there
    (or go on, when the form does not fail) exactly as the model does, with the same output before it"""
    pre = ("Boom takes Xx\nsay \"in\"\nsay Nope\nsay \"unreachable\"\n\nEcho takes Xx\ngive back Xx\n\n"
           "put \"s\" into Str\nsay \"before\"\n")
    out = []
    for f in FAILING:
        for cname, ctx in CONTEXTS:
            out.append({"src": pre + ctx.replace("{F}", f) + "say \"after\"\n", "stdin": "", "rf": 0 if f.startswith("listen") else None,
                        "meta": f"error-stops: `{f}` {cname}"})
    return out


def run(chk):
    proved = setup(chk, "C04")
    rng = rng_for(chk, 4)
    quick = chk.tier == "quick"
    cases = [{"src": c["src"], "meta": c.get("note")} for c in corpus_cases("exec")]
    cases += skeletons(rng, 300 if quick else 4000)
    # an error in the middle: everything printed before it is preserved, nothing after
    for cond in CONDS:
        cases.append({"src": f"put 1 into X\nrock Q with 1, 0\nsay 1\nif {cond}\nsay 2\nsay Y\nsay 3\n\nsay 4\nsay mysterious is less than true\nsay 5\n", "meta": "error-stops"})
    cases += error_stops_cases()
    # a loop left by break after the body made the condition unevaluable
    cases.append({"src": "X is 0\nuntil X is greater than 10\nbuild X up\nsay X\nif X is 3\nput true into X\nbreak\n\n\nsay \"done\"\n", "meta": "break, condition unevaluable"})
    # loops with an EMPTY body: the condition (with a side effect) is still evaluated before every iteration
    for kind, cond in (("while", "roll Que"), ("until", "not roll Que"), ("while", "Step taking 5"), ("until", "Step taking 4")):
        for blank in ("\n\n", "\n\n\n"):
            pre = ("rock Que with 1, 2, 3, 0, 5\n" if "Que" in cond else
                   "put 0 into Count\nStep takes Lim\nbuild Count up\n" + ("give back Count is less than Lim\n" if kind == "while" else "give back Count is as great as Lim\n") + "\n")
            cases.append({"src": f"{pre}{kind} {cond}{blank}say \"after\"\n" + ("say Que\n" if "Que" in cond else "say Count\n"), "meta": "empty loop body"})
            cases.append({"src": f"{pre}if true\n{kind} {cond}{blank}say \"inner\"\n\n" + ("say Que\n" if "Que" in cond else "say Count\n"), "meta": "empty loop body nested"})
    # layout: what ends a block, what separates statements, what does neither (model = implementation on every variant)
    from . import gen_layout
    cases += [{"src": t, "stdin": gen_layout.STDIN, "meta": "layout " + k.rstrip("0123456789")} for (k, t) in gen_layout.variants(quick, rng)]
    # an output fault in the middle: execution stops at that say
    faulted = []
    for c in cases[len(corpus_cases("exec")):len(corpus_cases("exec")) + (60 if quick else 600)]:
        faulted.append(dict(c, wb=rng.randint(0, 12), meta="write fault"))
    cases += faulted
    recs = execsuite.run(chk, cases, "cf", suite_name="EXEC-controlflow")
    record_exec(chk, recs, sig=lambda r: (r["impl"].get("debug", "")[:80], r["case"]["src"].count("\nif "), r["case"]["src"].count("while") + r["case"]["src"].count("until")))
    gen = exec_cases(chk, 200 if quick else 2000, focus={"if": 5, "loop": 4, "flow": 2, "say": 6}, salt=44)
    recs2 = execsuite.run(chk, gen, "gen", suite_name="EXEC-gen")
    record_exec(chk, recs2)
    chk.rule = ("skeleton programs: arbitrarily nested if/else/while/until with break/continue (both spellings) inside nested ifs, "
                "numbered say markers, conditions of every value kind incl. side-effecting `roll Q`; programs with a runtime error "
                "in the middle (output before it must be preserved): 23 failing statement forms (unknown names, failing/ill-called "
                "functions as statements and inside expressions, value errors, read fault) x 8 positions (top level, if, else, loops, "
                "function bodies called as statement / in an expression / from a loop in an if); layout variants of ten block-structured "
                "programs (inserted lines of 20 kinds at every boundary, 15 line-ending conventions, blank lines removed / tripled, "
                "truncation at every line, indentation, joined statements); plus generated programs. Compared: stdout bytes and outcome, "
                "debug and release, model vs implementation. distinct = (output prefix, #ifs, #loops)")
    conclude(chk, "C04", proved)
