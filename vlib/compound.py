"""Compound assignment `let x be op e` next to its expansion `let x be x op e` (C03, C14): every operator
alias x operand forms that make the order of evaluation observable (pronouns, calls that change the target,
operand lists) x kinds of target (variable, array element, pronoun)."""

OPS = ["with", "plus", "+", "minus", "without", "-", "times", "of", "*", "over", "between", "/"]
OPERANDS = ["2", "Y", "it", "it, it", "2, it", "Y, it", "Bump taking 5", "Bump taking it", "it, Bump taking 1", "Bump taking 1, it",
            "Y, X", "X", "\"s\"", "mysterious", "Y, \"s\", 2", "Nope"]
TARGETS = [("X", "X is 10\nY is 5\n"), ("Arr at 0", "rock Arr with 10\nX is 1\nY is 5\n"), ("it", "Y is 5\nX is 10\n"),
           ("Undef", "X is 10\nY is 5\n"), ("Str", "X is 10\nput \"ab\" into Str\nY is 5\n")]
PRE = "Bump takes V\nput 100 into X\nput 200 into Str\ngive back V\n\n"


def pairs(ops=None):
    out = []
    for tgt, init in TARGETS:
        for op in (ops or OPS):
            for e in OPERANDS:
                tail = f"say {tgt}\nsay X\nsay Y\nsay it\n"
                a = PRE + init + f"let {tgt} be {op} {e}\n" + tail
                b = PRE + init + f"let {tgt} be {tgt} {op} {e}\n" + tail
                out.append((a, b, {"target": tgt, "op": op, "operands": e}))
    return out
