"""C12 — tokens carry their exact spelling and true source position."""
import re
from . import suite, gen_lex, gen_prog
from .propbase import *
from . import basesuites

TOK = re.compile(r"\(tok (\([A-Za-z]+ [^)]*\)|[A-Za-z]+) #([0-9a-f]*) (\d+) (\d+) (\d+) (\d+) (\d+)\) \(post (\d+) (\d+) (\d+)\)")


def check_positions(text, result):
    """The property itself, on the implementation's answer: slices, order, gaps, true line/column."""
    if not result.startswith("ok"):
        return f"lexer did not return: {result[:60]}"
    b = text.encode("utf-8")
    prev_end = 0
    in_gap_ok = set(b" \t\r\x0b\x0c")
    for m in TOK.finditer(result):
        ty, sp, off, sl, sc, el, ec = m.group(1), bytes.fromhex(m.group(2)), int(m.group(3)), int(m.group(4)), int(m.group(5)), int(m.group(6)), int(m.group(7))
        if b[off:off + len(sp)] != sp:
            return f"token at {off} is not a slice of the source"
        if off < prev_end:
            return f"token at {off} overlaps the previous one"
        gap = b[prev_end:off].decode("utf-8", "replace")
        for ch in gap:
            if ch == "\n":
                return f"a newline before offset {off} is not a token"
            if not (ch.isspace() or (ch.isascii() and not ch.isalnum() and ch != "_") ):
                return f"non-ignorable character {ch!r} skipped before offset {off}"
        line = 1 + b[:off].count(b"\n")
        ls = b.rfind(b"\n", 0, off) + 1
        if (sl, sc) != (line, off - ls):
            return f"token at {off}: start reported ({sl},{sc}), true ({line},{off - ls})"
        end = off + len(sp)
        if sp and not sp.endswith(b"\n"):
            last_start = end - 1
            while last_start > off and (b[last_start] & 0xC0) == 0x80:
                last_start -= 1
            eline = 1 + b[:last_start].count(b"\n")
            els = b.rfind(b"\n", 0, last_start) + 1
            if (el, ec) != (eline, end - els):
                return f"token at {off}: end reported ({el},{ec}), true ({eline},{end - els})"
        prev_end = end
    return None


def run(chk):
    proved = setup(chk, "C12")
    basesuites.run_uni(chk)
    rng = rng_for(chk, 12)
    quick = chk.tier == "quick"
    texts = list(gen_lex.exhaustive(3 if quick else 4))
    texts += gen_lex.soup(rng, 1500 if quick else 15000)
    cp = gen_lex.corpus_programs()
    progs, _ = gen_prog.gen_programs(rng.randrange(10 ** 9), 150 if quick else 1500)
    texts += cp + progs + [gen_lex.mutate(rng, rng.choice(cp + progs)) for _ in range(600 if quick else 6000)]
    texts += [c["src"] for c in corpus_cases("exec")]
    texts += gen_lex.keyword_texts()
    texts += gen_lex.scale_texts()
    lines = [f"(lex l{i} tokens {C.hx(t)})" for i, t in enumerate(texts)]
    res, _ = suite.compare(chk, lines, "lex", project=lambda x: x, suite_name="LEX")
    bad = 0
    for i, t in enumerate(texts):
        for side in ("debug", "release"):
            r = res[side].get(f"l{i}", "")
            msg = check_positions(t, r)
            if msg and bad < 4:
                bad += 1
                chk.add_violation("token positions: " + msg, {"oracle": "positions-on-implementation", "profile": side, "src": t, "tokens": C.decode_hex_fields(r)[:1500]})
        r = res["debug"].get(f"l{i}", "")
        kinds = tuple(sorted(set(m.group(1).split(" ")[0].strip("(") for m in TOK.finditer(r))))
        chk.distinct.add((kinds, t.count("\n") > 0, any(ord(c) > 127 for c in t)))
        chk.count("tokens", len(TOK.findall(r)))
    chk.samples = [repr(t) for t in texts[200:203] + texts[-2:]]
    chk.rule = ("exhaustive strings to length 3 (4) over the critical alphabet, token soup (multi-line strings/comments followed by "
                "suffixes and further tokens, multi-byte characters on the last line of multi-line tokens, CR/LF, every Unicode "
                "whitespace), corpus + mutations, generated programs; full token list (type, payload, spelling, byte offset, range, "
                "lexer post-state) compared model vs implementation, and the property's statement (slice, order, ignorable gaps, "
                "true start/end line and byte column) re-checked on the implementation's tokens by an independent calculation; "
                "distinct = (set of token kinds, has newline, has non-ASCII)")
    conclude(chk, "C12", proved)
