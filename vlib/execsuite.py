"""EXEC suite: programs (source text) x stdin x fault positions, model interpreter vs real interpreter.
The model interprets the tree the *real* parser produced (serialised by the harness), so this
suite ties the interpreter model alone; the parser model is tied by suite PARSE."""
import re
from . import common as C


def opt(x):
    return "none" if x is None else str(x)


def get_asts(srcs, tag):
    lines = [f"(exec a{i} ast {C.hx(s)})" for i, s in enumerate(srcs)]
    res, died = C.run_cases({"debug": lines}, tag + "_ast")
    out = []
    for i in range(len(srcs)):
        r = res["debug"][f"a{i}"]
        if r.startswith("ok "):
            out.append(("ok", r[3:]))
        elif r.startswith("parse-error"):
            out.append(("parse-error", r))
        else:
            out.append(("crash", r))
    return out


def split_out(text):
    """'ok out:HEX' -> (status, outhex)"""
    m = re.match(r"(.*?) ?out:([0-9a-f]*)$", text)
    if m:
        return m.group(1), m.group(2)
    return text, None


def canon_impl(t):
    if t in ("panic", "tool-died", "timeout") or t.startswith("panic"):
        return "crash" if t != "timeout" else "timeout"
    return t


def canon_model(t):
    if t.startswith("panic") or t.startswith("ub "):
        return "crash"
    return t


def strip_msg(status):
    m = re.match(r"(err \S+)( #[0-9a-f]*)?$", status)
    return m.group(1) if m else status


def run(chk, cases, tag, suite_name="EXEC", project=None, max_report=4, on_case=None):
    """cases: list of dicts {src, stdin, wb, rf, meta}.  Compares stdout bytes and outcome
    (error variant; message wording is reported as drift only).
    Returns list of per-case records {case, model:{debug,release}, impl:{debug,release}, parse}."""
    impl_lines, model_lines = [], {"model_debug": [], "model_release": []}
    for i, c in enumerate(cases):
        base = f"(exec c{i} run {C.hx(c['src'])} {C.hx(c.get('stdin', ''))} {opt(c.get('wb'))} {opt(c.get('rf'))}"
        impl_lines.append(base + ")")
        for prof in ("debug", "release"):
            model_lines[f"model_{prof}"].append(base + f" {prof})")
    res, died = C.run_cases({"debug": impl_lines, "release": impl_lines, **model_lines}, f"{chk.pid}_{tag}")
    asts = [("parse-error", "") if res["debug"][f"c{i}"].startswith("parse-error") else ("ok", "") for i in range(len(cases))]
    stats = {"cases": len(cases), "parse_errors": 0, "mismatch": 0, "discarded_budget": 0, "impl_crash": 0,
             "runtime_errors": 0, "ok": 0, "drift": 0}
    records = []
    nbad = 0
    for i, c in enumerate(cases):
        st, ast = asts[i]
        rec = {"case": c, "parse": st, "impl": {}, "model": {}}
        records.append(rec)
        if st != "ok":
            stats["parse_errors"] += 1
        bad = None
        for prof in ("debug", "release"):
            it = canon_impl(res[prof][f"c{i}"])
            mt = canon_model(res[f"model_{prof}"][f"c{i}"])
            rec["impl"][prof] = it
            rec["model"][prof] = mt
            if mt.startswith("driver-error") or mt == "tool-died" or mt.startswith("unknown"):
                bad = ("model driver failed", prof)
                continue
            if mt in ("outoffuel", "overbudget"):
                stats["discarded_budget"] += 1
                rec["discarded"] = True
                continue
            ist, iout = split_out(it)
            mst, mout = split_out(mt)
            if it in ("crash", "timeout"):
                stats["impl_crash"] += 1
            p = project or (lambda s, o: (strip_msg(s), o))
            if p(ist, iout) != p(mst, mout):
                bad = ("implementation and model disagree", prof)
            elif (ist, iout) != (mst, mout):
                stats["drift"] += 1
                if len(chk.drift) < 20:
                    chk.drift.append({"suite": suite_name, "src": c["src"], "model": C.decode_hex_fields(mst), "impl": C.decode_hex_fields(ist)})
        if rec["impl"].get("debug", "").startswith("err"):
            stats["runtime_errors"] += 1
        elif rec["impl"].get("debug", "").startswith("ok"):
            stats["ok"] += 1
        if bad:
            stats["mismatch"] += 1
            nbad += 1
            rec["mismatch"] = True
            if nbad <= max_report:
                chk.add_violation(f"{suite_name}: {bad[0]} ({bad[1]} profile)", {
                    "suite": suite_name, "src": c["src"], "stdin": c.get("stdin", ""), "write_budget": c.get("wb"),
                    "read_fault": c.get("rf"), "meta": c.get("meta"),
                    "model": {k: C.decode_hex_fields(v) for k, v in rec["model"].items()},
                    "impl": {k: C.decode_hex_fields(v) for k, v in rec["impl"].items()}},
                    no_input=bad[0].startswith("model driver"))
        if on_case:
            on_case(rec)
    for side, ds in died.items():
        for (k, rc, tail, cid) in ds:
            chk.notes.append(f"{suite_name}: {side} shard {k} exited with {rc} on case {cid}")
    chk.evals += len(cases)
    chk.suites[suite_name] = stats
    return records
