"""C05 — functions, scopes and pronouns."""
from . import execsuite
from .propbase import *

TEMPLATES = [
    # recursion, returns from inside loops and ifs
    "Fact takes N\nif N is less than 2\ngive back 1\n\ngive back N times Fact taking N minus 1\n\nsay Fact taking 5\nsay Fact taking 0\n",
    "Find takes X\nwhile X is greater than 0\nif X is 3\ngive back \"three\"\n\nknock X down\n\ngive back \"none\"\n\nsay Find taking 5\nsay Find taking 2\nsay X\n",
    "let X be 1\nFind takes X\nwhile X is greater than 0\ngive back X\n\n\nsay Find taking 5\nsay X\n",
    "Count takes N\nif N is 0\ngive back 0\n\nput Count taking N minus 1 into R\ngive back R plus N\n\nsay Count taking 3\nsay Count taking 10\n",
    # call by value, locals do not leak, outer update
    "Mod takes Apex\nput 99 into Apex\nput 5 into Local\nput 7 into G\ngive back Apex\n\nput 1 into G\nput 2 into V\nsay Mod taking V\nsay V\nsay G\nsay Local\n",
    "Arr takes Apex\nrock Apex with 9\nlet Apex at 0 be \"changed\"\ngive back Apex\n\nrock L with 1, 2\nput Arr taking L into R\nsay L\nsay L at 0\nsay R\nsay R at 0\n",
    "put 1 into X\nif true\nput 2 into X\nput 3 into Y\nsay Y\n\nsay X\nsay Y\n",
    "put 0 into I\nwhile I is less than 2\nbuild I up\nput I into Inner\n\nsay I\nsay Inner\n",
    # arguments left to right, with side effects
    "Show takes X\nsay X\ngive back X\n\nAdd takes Apex and B and C\ngive back Apex plus B plus C\n\nsay Add taking Show taking 1, Show taking 2, Show taking 3\n",
    # pronouns
    "put 5 into X\nsay it\nput 6 into Y\nsay it\nsay X plus it\nbuild it up\nsay Y\n",
    "put 5 into X\nif X\nsay it\n\nsay it\n",
    "F takes Apex\ngive back Apex\n\nput 1 into X\nsay F taking 2\nsay it\n",
    "say it\n",
    "put 1 into X\nwhile X is less than 3\nbuild X up\n\nbuild it up\nsay X\n",
    # errors
    "F takes Apex and B\ngive back Apex\n\nsay F taking 1\n",
    "F takes Apex\ngive back Apex\n\nsay F taking 1, 2\n",
    "put 1 into X\nsay X taking 1\n",
    "say Nope\n",
    "say Nope taking 1\n",
    "F takes Apex\ngive back Apex\n\nsay F\n",
    "F takes Apex, Apex\ngive back Apex\n\nsay F taking 1, 2\n",
    "Foo takes X\nGive back X plus 1\n\nBar takes Foo\nGive back Foo taking 1\n\nSay Bar taking 5\n",
    "Outer takes X\nInner takes Y\ngive back Y times 2\n\ngive back Inner taking X\n\nsay Outer taking 4\nsay Inner taking 1\n",
    "F takes X\nsay X\n\nsay F taking 1\n",
    "Deep takes N\nif N is 0\ngive back 0\n\ngive back 1 plus Deep taking N minus 1\n\nsay Deep taking 50\n",
    "the function takes my arg and Your Other Arg\ngive back my arg with Your Other Arg\n\nsay the function taking 1, 2\nsay THE FUNCTION taking \"a\", \"b\"\n",
    "Shower takes Y\nSay it\nGive back Y\n\nX is 3\nSay Shower taking X\n",
    "Shower takes Y\nbuild it up\nGive back Y\n\nX is 3\nSay Shower taking 5\nSay X\n",
    "Shower takes Y, Z\nSay it\nput it into W\nGive back W\n\nX is 3\nQ is 4\nSay Shower taking X, Q\nSay Shower taking 1, 2\n",
    "Outer takes A\nsay it\nput Inner taking A into B\nsay it\ngive back B\n\nInner takes C\nsay it\ngive back C\n\nX is 3\nsay Outer taking X\nsay it\n",
    # empty bodies (a function, a branch, a loop that ends at once): the scope protocol still runs, the pronoun is cleared
    "Idle takes X\n\n\nput 5 into Y\nIdle taking 1\nshout it\n",
    "Idle takes X\n\n\nput 5 into Y\nsay Idle taking 1\nput 9 into it\nsay Y\n",
    "Idle takes X, Y\n\n\nput 5 into Z\nput Idle taking Z, 2 into W\nsay W\nsay it\n",
    "Idle takes X\n\n\nput 5 into X\nIdle taking 7\nsay X\nbuild it up\n",
    "put 5 into Y\nif Y\n\nshout it\n", "put 5 into Y\nif not Y\n\nelse\n\nshout it\n", "put 0 into Y\nwhile Y\n\nshout it\n",
    "put 0 into Y\nuntil Y is 0\n\nshout it\nput 3 into Z\nshout it\n",
]


def shadowing_cases():
    """parameters named like the caller's variables, arguments in every order and of every form (variable,
    subscript, nested call, pronoun): every argument is evaluated in the CALLER's scope, before any parameter
    is bound; the callee sees exactly the values passed, the caller's variables are untouched afterwards"""
    import itertools
    out = []
    names = ["X", "Y", "Z"]
    for k in (2, 3):
        ps = names[:k]
        head = f"Show takes {', '.join(ps)}\n" + "".join(f"say {p}\n" for p in ps) + f"put 0 into {ps[0]}\ngive back {ps[-1]}\n\n"
        ident = "Same takes V\ngive back V\n\n"
        init = "".join(f"put {i + 1} into {p}\n" for i, p in enumerate(ps)) + "rock Arr with 10, 20, 30\n"
        tail = "".join(f"say {p}\n" for p in ps)
        for perm in itertools.product(ps, repeat=k):
            if list(perm) == ps:
                continue
            args = ", ".join(perm)
            out.append({"src": head + init + f"say Show taking {args}\n" + tail, "meta": "shadowing: variables permuted"})
            out.append({"src": head + init + f"Show taking {args}\n" + tail, "meta": "shadowing: call statement"})
        forms = {"sub": lambda v: f"Arr at {v}", "call": lambda v: f"Same taking {v}", "neg": lambda v: f"not {v}"}
        for fname, form in forms.items():
            for perm in itertools.permutations(ps):
                args = ", ".join(form(v) if i else v for i, v in enumerate(perm))
                out.append({"src": head + ident + init.replace("put 1 into X", "put 0 into X") + f"say Show taking {args}\n" + tail,
                            "meta": f"shadowing: later arguments {fname}"})
        # a parameter named like the caller's ARRAY, and a pronoun argument after a named one
        out.append({"src": f"Pick takes Idx, Arr\ngive back Arr\n\nrock Arr with 7, 8, 9\nput 1 into Idx\nsay Pick taking Idx, Arr at 1\nsay Arr at 1\n", "meta": "shadowing: array"})
        out.append({"src": head + init + f"say Show taking {ps[1]}, it" + (", it" if k == 3 else "") + "\n" + tail, "meta": "shadowing: pronoun argument"})
    # recursion handing its own parameters on in another order
    out.append({"src": "Count takes N, Prev\nsay Prev\nif N is 0\ngive back Prev\n\nput N minus 1 into M\ngive back Count taking M, N\n\nsay Count taking 3, 0\n", "meta": "shadowing: recursion"})
    return out


def run(chk):
    proved = setup(chk, "C05")
    quick = chk.tier == "quick"
    cases = [{"src": t, "meta": "template"} for t in TEMPLATES] + shadowing_cases()
    cases += [{"src": c["src"], "meta": c.get("note")} for c in corpus_cases("exec")]
    # the pronoun after every statement form, in every placement
    from . import gen_pronoun
    cases += [{"src": c["src"], "stdin": c["stdin"], "meta": "pronoun " + c["meta"]["wrap"]} for c in gen_pronoun.programs(quick, rng_for(chk, 5))]
    recs = execsuite.run(chk, cases, "tmpl", suite_name="EXEC-templates")
    record_exec(chk, recs, sig=lambda r: (r["case"]["src"][:60], r["impl"].get("debug", "")[:60]))
    gen = exec_cases(chk, 350 if quick else 4000, focus={"func": 4, "callstmt": 3, "if": 2.5, "loop": 2, "assign": 6, "say": 6}, salt=55)
    recs2 = execsuite.run(chk, gen, "gen", suite_name="EXEC-gen")
    record_exec(chk, recs2)
    chk.rule = ("hand-written scope/call/pronoun templates (recursion, return from nested loops/ifs, call by value for scalars and "
                "arrays, block locals, argument order with printing callees, pronoun after block/call end, arity and kind errors, "
                "name shadowing between parameters/locals and outer functions; empty function / branch / loop bodies followed by a pronoun; parameters named like the caller's variables with the "
                "arguments in every order and form: variable, subscript, nested call, negation, pronoun; 62 statement forms x 10 placements "
                "(top level, start / end of a block or function body, after the block or call, as an argument) followed by a use of the pronoun) plus generated programs with functions; compared: "
                "stdout bytes + outcome in debug and release")
    conclude(chk, "C05", proved)
