"""Random Rockstar programs as source text.  Every random choice derives from one PRNG.
Programs are structured (statements/blocks), mostly valid, with kind-tracking so that most run
without a runtime error; an `illtyped` knob removes the tracking (C09)."""
import random

SIMPLE = ["x", "y", "z", "total", "count", "idx", "foo", "tmp", "acc", "key"]
COMMON = ["my heart", "the world", "your love", "a dream", "our song", "an angel"]
PROPER = ["Black Betty", "Johnny B Goode", "Doctor Feelgood", "Tom Sawyer"]
FUNCS = ["Midnight", "Polly", "Adder", "Deep Thought", "the hammer"]
NUM_LITS = ["0", "1", "2", "3", "5", "7", "10", "0.5", "2.5", "100", "36", "16", "65", "1000000", "0.1", "3.75", "255"]
ML_STR_LITS = ['"two\nlines"', '"ends\n"']
STR_LITS = ['"a"', '"abc"', '"hello world"', '""', '"1"', '"42"', '"1.5"', '" x"', '"a,b,c"', '"ff"', '"é"', '"Zz"', '"x y z"']
CONSTS = ["mysterious", "null", "nothing", "nowhere", "nobody", "gone", "true", "right", "yes", "ok",
          "false", "wrong", "no", "lies", "empty", "silent", "silence"]
ADD = ["+", "plus", "with"]
SUB = ["-", "minus", "without"]
MUL = ["*", "times", "of"]
DIV = ["/", "over", "between"]
CMP_OPS = {
    "eq": ["is", "are", "was", "were"],
    "ne": ["is not", "isnt", "isn't", "aint", "ain't", "are not", "wasnt", "weren't", "arent"],
    "gt": ["is greater than", "is higher than", "is bigger than", "is stronger than", ">", "are greater than"],
    "lt": ["is less than", "is lower than", "is smaller than", "is weaker than", "<", "was less than"],
    "ge": ["is as great as", "is as high as", "is as big as", "is as strong as", ">=", "were as big as"],
    "le": ["is as low as", "is as little as", "is as small as", "is as weak as", "<=", "are as low as"],
}
CMP = [x for v in CMP_OPS.values() for x in v]
LOGIC = ["and", "or", "nor"]
SAY = ["say", "shout", "whisper", "scream"]


class Gen:
    def __init__(self, rng, illtyped=False, focus=None, sp=None, names=None, recase_names=True, extras=True):
        self.recase_names = recase_names
        self.extras = extras        # comments, multi-line strings, pronoun statements (off where an oracle rewrites the text line by line)
        self.r = rng
        # spelling choices (aliases, case, separators) come from a separate stream, so the same
        # structure seed with another spelling seed gives another spelling of the same tree
        self.sp = sp if sp is not None else random.Random(rng.randrange(10 ** 9))
        # position-wise renaming of the name pools (C15)
        nm = names or {}
        self.SIMPLE = nm.get("SIMPLE", SIMPLE)
        self.COMMON = nm.get("COMMON", COMMON)
        self.PROPER = nm.get("PROPER", PROPER)
        self.FUNCS = nm.get("FUNCS", FUNCS)
        self.PARAMS = nm.get("PARAMS", ["alpha", "beta", "gamma", "my soul", "the night"])
        self.ill = illtyped
        self.focus = focus or {}
        self.vars = {}        # name -> kind: num | str | arr | bool | any
        self.funcs = {}       # name -> arity
        self.depth = 0
        self.in_loop = 0
        self.in_func = 0
        self.stats = {}
        self.protected = set()      # loop counters: never chosen as a fresh name while their loop body is generated

    def stat(self, k):
        self.stats[k] = self.stats.get(k, 0) + 1

    def w(self, key, default):
        return self.focus.get(key, default)

    # ---- names
    def fresh_name(self):
        pool = self.SIMPLE + self.COMMON + self.PROPER
        cands = [i for i, n in enumerate(pool) if n not in self.vars and n not in self.funcs and n not in self.protected]
        if not cands:
            cands = [i for i, n in enumerate(pool) if n not in self.protected] or list(range(len(pool)))
        return pool[self.r.choice(cands)]

    def var_of(self, kinds):
        c = [n for n, k in self.vars.items() if k in kinds or k == "any"]
        return self.r.choice(c) if c else None

    def recase(self, name):
        # mentions of a name may differ in case (proper names keep capital initials)
        if self.sp.random() < 0.8 or not self.recase_names:
            return name
        words = name.split(" ")
        if len(words) > 1 and all(w[:1].isupper() for w in words):      # proper
            return " ".join(w[0] + "".join(self.sp.choice([c.lower(), c.upper()]) for c in w[1:]) for w in words)
        if len(words) == 2:                                            # common: prefix + word
            return self.sp.choice([words[0], words[0].upper(), words[0].capitalize()]) + " " + \
                self.sp.choice([words[1], words[1].upper(), words[1].lower()])
        if name[:1].isupper():                                         # capitalised simple name
            return name[0] + "".join(self.sp.choice([c.lower(), c.upper()]) for c in name[1:])
        return self.sp.choice([name, name.upper(), name.capitalize()]) if len(name) > 1 else name

    # ---- expressions
    def num_atom(self):
        v = self.var_of(("num",))
        c = self.r.random()
        if v and c < 0.5:
            return self.recase(v)
        if c < 0.9:
            return self.r.choice(NUM_LITS)
        return "-" + self.r.choice(NUM_LITS)

    def any_atom(self):
        c = self.r.random()
        if c < 0.35:
            return self.num_atom()
        if c < 0.55:
            return self.r.choice(STR_LITS)
        if c < 0.7:
            return self.r.choice(CONSTS)
        if c < 0.97 and self.vars:
            return self.recase(self.r.choice(list(self.vars)))
        return self.r.choice(["it", "he", "she", "them"])

    def primary(self, kind="num", depth=0):
        c = self.r.random()
        if self.ill:
            kind = "any"
        if kind == "num":
            arr = self.var_of(("arr",))
            if arr and c < 0.15:
                return f"{self.recase(arr)} at {self.r.choice(['0', '1', '2', self.num_atom()])}"
            f = [n for n, a in self.funcs.items() if a <= 3]
            if f and c < 0.3 and depth < 2 and self.in_func == 0:
                return self.call(self.r.choice(f), depth)
            return self.num_atom()
        if kind == "str":
            v = self.var_of(("str",))
            if v and c < 0.5:
                return self.recase(v)
            if self.extras and c > 0.97:
                return self.r.choice(ML_STR_LITS)
            return self.r.choice(STR_LITS)
        if kind == "arr":
            v = self.var_of(("arr",))
            return self.recase(v) if v else self.any_atom()
        # any
        arr = self.var_of(("arr",))
        if arr and c < 0.15:
            k = self.r.choice(["0", "1", '"k"', "true", "null", "mysterious", self.any_atom()])
            return f"{self.recase(arr)} at {k}"
        if self.funcs and c < 0.25 and depth < 2 and self.in_func == 0:
            return self.call(self.r.choice(list(self.funcs)), depth)
        if arr and c < 0.3:
            return f"roll {self.recase(arr)}"
        return self.any_atom()

    def call(self, f, depth):
        ar = self.funcs[f]
        if self.ill and self.r.random() < 0.1:
            ar = max(1, ar + self.r.choice([-1, 1]))
        seps = [", ", " & ", " 'n' ", ", and ", " and "]
        args = []
        for _ in range(ar):
            a = self.unary(depth + 1)
            args.append(a)
        s = args[0]
        for a in args[1:]:
            s += self.sp.choice(seps) + a
        return f"{self.recase(f)} taking {s}"

    def unary(self, depth):
        c = self.r.random()
        if c < 0.1:
            return "not " + self.primary("any", depth)
        if c < 0.15:
            return "-" + self.r.choice(NUM_LITS)
        return self.primary("num" if not self.ill else "any", depth)

    def arith(self, depth=0, kind="num"):
        if depth > 2 or self.r.random() < 0.35:
            return self.primary(kind, depth)
        c = self.r.random()
        a = self.arith(depth + 1, kind)
        if c < 0.3:
            op = self.sp.choice(ADD)
        elif c < 0.5:
            op = self.sp.choice(SUB)
        elif c < 0.75:
            op = self.sp.choice(MUL)
        else:
            op = self.sp.choice(DIV)
        b = self.primary(kind, depth + 1)
        s = f"{a} {op} {b}"
        if self.r.random() < self.w("lists", 0.12):
            low = c < 0.5          # + / - list: later items may be chains of * and /
            for _ in range(self.r.randint(1, 3)):
                item = self.primary(kind, depth + 1)
                if low and self.r.random() < 0.5:
                    for _ in range(self.r.randint(1, 2)):
                        item += " " + self.sp.choice(self.r.choice([MUL, DIV])) + " " + self.primary(kind, depth + 1)
                s += self.sp.choice([", ", ", and "]) + item
        return s

    def str_expr(self):
        c = self.r.random()
        if c < 0.5:
            return self.primary("str")
        if c < 0.8:
            return f"{self.primary('str')} {self.sp.choice(ADD)} {self.any_atom()}"
        return f"{self.primary('str')} {self.sp.choice(MUL)} {self.r.choice(['0', '1', '2', '3'])}"

    def cond(self, depth=0):
        c = self.r.random()
        a = self.arith(1) if not self.ill else self.arith(1, "any")
        if c < 0.6:
            b = self.arith(2) if self.r.random() < 0.8 else self.any_atom()
            e = f"{a} {self.sp.choice(CMP_OPS[self.r.choice(list(CMP_OPS))])} {b}"
        elif c < 0.75:
            e = self.any_atom()
        elif c < 0.85:
            e = "not " + self.any_atom()
        else:
            e = a
        if depth < 1 and self.r.random() < 0.3:
            e = f"{e} {self.r.choice(LOGIC)} {self.cond(depth + 1)}"
        return e

    def expr(self, kind=None):
        if kind is None:
            kind = self.r.choice(["num", "num", "str", "bool", "any"]) if not self.ill else "any"
        if kind == "num":
            return self.arith(), "num"
        if kind == "str":
            return self.str_expr(), "str"
        if kind == "bool":
            return self.cond(), "bool"
        return self.r.choice([self.arith(0, "any"), self.cond(), self.any_atom()]), "any"

    # ---- statements (each returns a list of lines)
    def lhs(self, name):
        return self.recase(name)

    def s_assign(self):
        name = self.var_of(("num", "str", "bool", "any")) if self.r.random() < 0.5 else None
        new = name is None
        if new:
            name = self.fresh_name()
        c = self.r.random()
        e, k = self.expr()
        if c < 0.4:
            line = f"put {e} into {self.lhs(name)}"
        elif c < 0.7:
            line = f"let {self.lhs(name)} be {e}"
        elif c < 0.85 and not new and self.vars.get(name) == "num":
            op = self.sp.choice(self.r.choice([ADD, SUB, MUL, DIV]))
            e = self.arith(1)
            if self.r.random() < 0.3:
                e += ", " + self.primary("num")
            line = f"let {self.lhs(name)} be {op} {e}"
            k = "num"
            self.stat("compound")
        else:
            lit = self.r.choice(NUM_LITS + STR_LITS + CONSTS[:6] + ["-3"])
            k = "num" if lit[0] in "-0123456789" else ("str" if lit[0] == '"' else "any")
            line = f"{self.lhs(name)} {self.sp.choice(['is', 'are', 'was', 'were'])} {lit}"
            if self.sp.random() < 0.3:
                line = f"{self.lhs(name)}'s {lit}"
        self.vars[name] = k if not self.ill else "any"
        self.stat("assign")
        return [line]

    def s_poetic(self):
        name = self.fresh_name() if self.r.random() < 0.6 or not self.vars else self.r.choice(list(self.vars))
        words = ["a", "lovestruck", "ladykiller", "ice", "cold", "dreams", "of", "sweet", "rock'n'roll", "nothing's",
                 "wild", "eternal", "daydreamer", "x", "mañana", "o'clock", "the", "sea", "fire", "burning"]
        c = self.r.random()
        if c < 0.75:
            n = self.r.randint(1, 5)
            ws = [self.r.choice(words) for _ in range(n)]
            if self.r.random() < 0.3:
                ws.insert(self.r.randint(1, len(ws)), ".")
            if self.r.random() < 0.15:
                ws.insert(self.r.randint(1, len(ws)), ",")
            if ws[0] in ("nothing's",):
                ws[0] = "a"
            txt = " ".join(ws).replace(" .", ".").replace(" ,", ",")
            line = f"{self.lhs(name)} {self.sp.choice(['is', 'was', 'are', 'were'])} {txt}"
            self.vars[name] = "num" if not self.ill else "any"
        else:
            txt = self.r.choice(["hello world", "  two spaces", "it's 5 o'clock, (somewhere)!", "ünïcödé", "x", "Say yeah", "1 2 3"])
            line = f"{self.lhs(name)} {self.r.choice(['says', 'said'])} {txt}"
            self.vars[name] = "str" if not self.ill else "any"
        self.stat("poetic")
        return [line]

    def s_say(self):
        e, _ = self.expr()
        self.stat("say")
        return [f"{self.sp.choice(SAY)} {e}"]

    def s_incdec(self):
        v = self.var_of(("num", "bool")) if not self.ill else (self.r.choice(list(self.vars)) if self.vars else None)
        if not v:
            return self.s_assign()
        n = self.r.randint(1, 3)
        self.stat("incdec")
        if self.r.random() < 0.5:
            return [f"build {self.lhs(v)} up" + self.sp.choice([", up", " up"]) * (n - 1)]
        return [f"knock {self.lhs(v)} down" + self.sp.choice([", down", " down"]) * (n - 1)]

    def s_listen(self):
        self.stat("listen")
        if self.r.random() < 0.8:
            name = self.fresh_name() if self.r.random() < 0.5 or not self.vars else self.r.choice(list(self.vars))
            self.vars[name] = "str" if not self.ill else "any"
            return [f"listen to {self.lhs(name)}"]
        return ["listen"]

    def s_array(self):
        arr = self.var_of(("arr",))
        c = self.r.random()
        self.stat("array")
        if not arr or c < 0.2:
            name = self.fresh_name()
            self.vars[name] = "arr" if not self.ill else "any"
            c2 = self.r.random()
            if c2 < 0.4:
                items = ", ".join(self.r.choice(NUM_LITS + STR_LITS) for _ in range(self.r.randint(1, 4)))
                return [f"rock {self.lhs(name)} with {items}"]
            if c2 < 0.6:
                return [f"rock {self.lhs(name)}"]
            if c2 < 0.8:
                return [f"let {self.lhs(name)} at {self.r.choice(['0', '1', '3', chr(34) + 'k' + chr(34), 'true', 'null'])} be {self.any_atom()}"]
            return [f"rock {self.lhs(name)} like {self.r.choice(['a razor', 'the wind', 'sweet dreams.'])}"]
        if c < 0.4:
            k = self.r.choice(["0", "1", "2", "5", '"k"', '"other"', "true", "null", "mysterious", "1.5", "10"])
            e, _ = self.expr()
            if self.r.random() < 0.3:
                k2 = self.r.choice(["0", "1", '"k"'])
                return [f"let {self.lhs(arr)} at {k} at {k2} be {e}"]
            return [f"let {self.lhs(arr)} at {k} be {e}"]
        if c < 0.55:
            items = ", ".join(self.any_atom() for _ in range(self.r.randint(1, 3)))
            return [f"rock {self.lhs(arr)} with {items}"]
        if c < 0.7:
            if self.r.random() < 0.5:
                name = self.fresh_name()
                self.vars[name] = "any"
                return [f"roll {self.lhs(arr)} into {self.lhs(name)}"]
            return [f"roll {self.lhs(arr)}"]
        if c < 0.85:
            # copy
            name = self.fresh_name()
            self.vars[name] = "arr" if not self.ill else "any"
            return [f"put {self.lhs(arr)} into {self.lhs(name)}"]
        return [f"{self.sp.choice(SAY)} {self.lhs(arr)} at {self.r.choice(['0', '1', chr(34) + 'k' + chr(34), 'true'])}"]

    def s_mutation(self):
        c = self.r.random()
        self.stat("mutation")
        into = ""
        dest = None
        if self.r.random() < 0.5:
            dest = self.fresh_name() if self.r.random() < 0.7 else (self.r.choice(list(self.vars)) if self.vars else self.fresh_name())
            into = f" into {self.lhs(dest)}"
        if c < 0.35:
            v = self.var_of(("str",))
            op = self.sp.choice(["cut", "split", "shatter"])
            operand = self.recase(v) if v else (self.r.choice(STR_LITS) if into else None)
            if operand is None:
                return self.s_assign()
            wth = self.r.choice(["", "", ' with ","', ' with " "', ' with "b"', ' with ""'])
            if dest:
                self.vars[dest] = "arr" if not self.ill else "any"
            elif v:
                self.vars[v] = "arr" if not self.ill else "any"
            return [f"{op} {operand}{into}{wth}"]
        if c < 0.6:
            v = self.var_of(("arr",))
            if not v:
                return self.s_array()
            op = self.sp.choice(["join", "unite"])
            wth = self.r.choice(["", ' with ","', ' with "-"'])
            if dest:
                self.vars[dest] = "any"
            else:
                self.vars[v] = "any"
            return [f"{op} {self.recase(v)}{into}{wth}"]
        if c < 0.85:
            op = self.sp.choice(["cast", "burn"])
            v = self.var_of(("str", "num"))
            operand = self.recase(v) if v else (self.r.choice(STR_LITS + NUM_LITS) if into else None)
            if operand is None:
                return self.s_assign()
            wth = self.r.choice(["", "", " with 16", " with 2", " with 10", " with 36"])
            if self.ill:
                wth = self.r.choice(["", " with 1", " with 37", " with 0", " with -2", " with 2.5", ' with "x"', " with 16"])
            if dest:
                self.vars[dest] = "any"
            elif v:
                self.vars[v] = "any"
            return [f"{op} {operand}{into}{wth}"]
        v = self.var_of(("num",))
        if not v:
            return self.s_assign()
        d = self.r.choice(["up", "down", "round"])
        d = self.sp.choice(["round", "around"]) if d == "round" else d
        if self.sp.random() < 0.5:
            return [f"turn {d} {self.recase(v)}"]
        return [f"turn {self.recase(v)} {d}"]

    def s_if(self):
        self.stat("if")
        c = self.cond()
        saved = dict(self.vars)
        body = self.block(self.r.randint(1, 3)) if self.r.random() > 0.07 else [""]     # an empty then-block: a blank line
        self.vars = dict(saved)
        lines = [f"if {c}"] + body
        if self.r.random() < 0.5:
            eb = self.block(self.r.randint(1, 2)) if self.r.random() > 0.07 else [""]
            self.vars = dict(saved)
            lines += ["else"] + eb
        self.stat("if-empty" if body == [""] else "if-body")
        return lines + [""]

    def s_loop(self):
        self.stat("loop")
        ctr = self.fresh_name()
        self.vars[ctr] = "num"
        n = self.r.randint(0, 4)
        pre = [f"put 0 into {ctr}"]
        if self.r.random() < 0.5:
            head = f"while {ctr} is less than {n}"
        else:
            head = f"until {ctr} is as great as {n}"
        saved = dict(self.vars)
        del self.vars[ctr]          # the body never touches the counter: loops terminate
        self.protected.add(ctr)
        self.in_loop += 1
        body = [f"build {ctr} up"]
        if self.r.random() < 0.4:
            kw = self.sp.choice(self.r.choice([["break", "break it down"], ["continue", "take it to the top"]]))
            body += [f"if {self.cond()}", kw, ""]
        body += self.block(self.r.randint(1, 3))
        self.in_loop -= 1
        self.protected.discard(ctr)
        self.vars = dict(saved)
        return pre + [head] + body + [""]

    def s_flow(self):
        self.stat("flow")
        return [self.sp.choice(self.r.choice([["break", "break it down"], ["continue", "take it to the top"]]))]

    def s_func(self):
        if self.depth > 1 or self.in_func > 1 or (self.depth + self.in_func > 0 and self.r.random() > 0.15):
            return self.s_say()
        self.stat("func")
        idxs = [i for i, f in enumerate(self.FUNCS) if f not in self.funcs and f not in self.vars] or list(range(len(self.FUNCS)))
        name = self.FUNCS[self.r.choice(idxs)]
        ar = self.r.randint(1, 3)
        params = [self.PARAMS[i] for i in self.r.sample(range(len(self.PARAMS)), ar)]
        saved = dict(self.vars)
        for p in params:
            self.vars[p] = "num" if not self.ill else "any"
        self.in_func += 1
        self.funcs[name] = ar   # recursion allowed syntactically, guarded below
        if self.r.random() < 0.06:
            # an empty body: two blank lines after the header
            self.in_func -= 1
            self.vars = saved
            self.stat("func-empty")
            seps0 = [" and ", ", ", " & "]
            ps0 = params[0]
            for p in params[1:]:
                ps0 += self.sp.choice(seps0) + p
            return [f"{name} {self.sp.choice(['takes', 'wants'])} {ps0}", "", ""]
        body = self.block(self.r.randint(1, 3))
        c = self.r.random()
        if c < 0.8:
            e, _ = self.expr()
            body += [self.sp.choice([f"give back {e}", f"return {e}", f"give {e} back", f"send {e} back", f"give {e}", f"send {e}"])]
        self.in_func -= 1
        self.vars = saved
        seps = [" and ", ", ", " & ", ", and ", " 'n' "]
        ps = params[0]
        for p in params[1:]:
            ps += self.sp.choice(seps) + p
        return [f"{name} {self.sp.choice(['takes', 'wants'])} {ps}"] + body + [""]

    def s_callstmt(self):
        if not self.funcs or self.in_func:
            return self.s_say()
        self.stat("callstmt")
        return [self.call(self.r.choice(list(self.funcs)), 0)]

    def statement(self):
        table = [
            (self.s_assign, self.w("assign", 5)),
            (self.s_poetic, self.w("poetic", 1.5)),
            (self.s_say, self.w("say", 5)),
            (self.s_incdec, self.w("incdec", 1.5)),
            (self.s_listen, self.w("listen", 0.7)),
            (self.s_array, self.w("array", 2.5)),
            (self.s_mutation, self.w("mutation", 1.5)),
            (self.s_if, self.w("if", 2) if self.depth < 3 else 0),
            (self.s_loop, self.w("loop", 1.5) if self.depth < 2 else 0),
            (self.s_func, self.w("func", 1.2)),
            (self.s_callstmt, self.w("callstmt", 0.8)),
            (self.s_flow, self.w("flow", 0.3) if (self.in_loop or self.ill) else 0),
        ]
        tot = sum(w for _, w in table)
        x = self.r.random() * tot
        for f, w in table:
            if x < w:
                return f()
            x -= w
        return self.s_say()

    def decorate(self, lines):
        """sometimes a comment after a statement, a comment line of its own (a blank-looking line that is NOT blank would
        end a block, so only inside a statement line), or a pronoun statement after it"""
        if not self.extras:
            return lines
        c = self.sp.random()
        if lines and lines[-1] != "" and c < 0.05 and "says " not in lines[-1] and " said " not in lines[-1] and '"' not in lines[-1] \
                and " is " not in lines[-1] and " was " not in lines[-1] and " are " not in lines[-1] and " were " not in lines[-1] \
                and "'s " not in lines[-1] and " like " not in lines[-1]:
            lines = lines[:-1] + [lines[-1] + self.sp.choice([" (a comment)", " (two\nlines)", "(c)", " (ünï ✓)"])]
            self.stat("comment")
        if lines and lines[-1] != "" and self.r.random() < 0.05 and not self.in_func:
            lines = lines + [self.r.choice(["say it", "build it up", "put it into Echo", "let it be 3", "knock it down", "put 1 into it", "say it at 0"])]
            self.stat("pronoun-stmt")
        return lines

    def block(self, n):
        self.depth += 1
        lines = []
        for _ in range(n):
            lines += self.decorate(self.statement())
        self.depth -= 1
        return lines

    def program(self, n=None):
        n = n or self.r.randint(2, 9)
        lines = []
        for _ in range(n):
            lines += self.decorate(self.statement())
        # always end by showing the state: observable effects of everything before
        for v, k in list(self.vars.items())[:6]:
            lines.append(f"say {v}")
        return "\n".join(lines) + "\n"


def gen_programs(seed, count, illtyped=False, focus=None, spelling_seed=None, names=None, recase_names=True, extras=True):
    """spelling_seed: same seed + different spelling_seed = other spellings of the same trees"""
    rng = random.Random(seed)
    sp_master = random.Random(seed * 7919 + 13 if spelling_seed is None else spelling_seed)
    out = []
    stats = {}
    for _ in range(count):
        g = Gen(rng, illtyped=illtyped, focus=focus, sp=random.Random(sp_master.randrange(10 ** 9)), names=names, recase_names=recase_names, extras=extras)
        out.append(g.program())
        for k, v in g.stats.items():
            stats[k] = stats.get(k, 0) + v
    return out, stats


def gen_stdin(rng):
    c = rng.random()
    if c < 0.2:
        return ""
    lines = [rng.choice(["hello", "42", "", "ünï", "a b c", "3.5", "x,y", "  padded  ", "tab\t", " 7 ", "x\u00a0"]) for _ in range(rng.randint(1, 4))]
    s = "\n".join(lines)
    if rng.random() < 0.6:
        s += "\n"
    return s
