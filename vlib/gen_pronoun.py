"""The pronoun after every statement form: which variable `it` denotes after a statement that names one or more
variables in each role (target, operand, index, argument, condition, parameter), at top level, at the start and the end of
a block and of a function body, and after the block / call.  No oracle of its own: model = implementation."""

SETUP = ["Vee is 5", "Wye is 7", "rock Arr with \"p\", \"q\", \"r\"", "Str says a,b,c", "Sep says ,", "Num says 101", "Func takes Par\ngive back Par with 1\n", "Zed is 0"]

STATEMENTS = ["say Vee", "say Vee plus Wye", "say Wye plus Vee", "put Vee into Wye", "put Wye into Vee", "let Vee be Wye", "let Vee be with Wye", "build Vee up", "knock Wye down",
              "turn up Vee", "turn Wye around", "cut Str", "cut Str into Wye", "cut Str into Wye with Sep", "join Arr", "join Arr into Wye", "cast Vee", "cast Vee into Wye",
              "cast Num into Wye with Vee", "rock Arr with Vee", "rock Arr with Vee, Wye", "rock Nu with Vee", "roll Arr", "roll Arr into Wye", "say roll Arr", "say Arr at Vee",
              "say Arr at 0", "let Arr at Vee be Wye", "let Arr at 1 be Vee", "let Vee at 0 be Wye", "say Func taking Vee", "say Func taking Vee, Wye", "Func taking Wye",
              "put Func taking Vee into Wye", "listen to Wye", "listen", "Wye says hello", "Wye is lovestruck", "Wye is Vee", "Wye is nothing", "Wye's here", "say it", "build it up",
              "let it be Wye", "put Wye into it", "say Vee is Wye", "say Vee is greater than Wye", "say not Vee", "say Vee and Wye", "say Zed and Wye", "say Zed or Wye",
              "say Vee or Wye", "say Zed nor Wye", "say Nope", "say Vee at Wye", "say \"lit\"", "say 1", "rock Arr", "rock Vee", "Nu is 1", "say Vee, Wye", "let Vee be Wye times 2, 3"]

WRAPS = [("{S}\nsay it\n", "top"),
         ("{S}\nbuild it up\nsay Vee\nsay Wye\nsay Zed\n", "top-write"),
         ("if true\n{S}\nsay it\n\nsay it\n", "if"),
         ("if false\nelse\n{S}\n\nsay it\n", "else"),
         ("say Wye\nif Vee\nsay 1\n\nsay it\n{S}\nif Wye\nsay it\n\n", "if-condition"),
         ("rock Que with 1\nwhile roll Que\n{S}\n\nsay it\n", "loop"),
         ("Outer takes Par\n{S}\nsay it\ngive back 1\n\nOuter taking Vee\nsay it\n", "function"),
         ("Outer takes Par\nsay it\n\nsay Wye\nOuter taking Vee\n{S}\n", "function-entry"),
         ("Outer takes Par\nsay Par\n{S}\n\n{S}\nOuter taking Wye\nsay it\n", "after-call"),
         ("{S}\nsay Func taking it\nsay it\n", "argument")]


def programs(quick, rng):
    out = []
    pre = "\n".join(SETUP) + "\n"
    for st in STATEMENTS:
        for w, tag in WRAPS:
            if quick and tag not in ("top", "top-write") and rng.random() < 0.5:
                continue
            out.append({"src": pre + w.replace("{S}", st), "stdin": "input line\nsecond\nthird\n", "meta": {"stmt": st, "wrap": tag}})
    return out
