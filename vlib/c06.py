"""C06 — arrays: independent values with queue and dictionary behaviour."""
import re
from . import suite, execsuite, values
from .propbase import *

KEYS = ["0", "1", "2", "5", "\"k\"", "\"other\"", "true", "false", "null", "mysterious", "1.5", "0.9", "\"0\""]


def histories(rng, n):
    """operation histories over up to four array variables copied from one another; the generator
    tracks which cells hold arrays so that their contents can be printed at the end"""
    out = []
    names = ["Apex", "Bee", "Cee", "Dee"]
    for _ in range(n):
        lines = ["rock Apex with 1, 2, 3", "let Apex at \"k\" be \"v\""]
        live = ["Apex"]
        nested = {"Apex": []}          # keys (as source text) of cells known to hold arrays
        size = {"Apex": 3}
        for _ in range(rng.randint(4, 12)):
            c = rng.random()
            x = rng.choice(live)
            if c < 0.22 and len(live) < 4:
                y = [m for m in names if m not in live][0]
                how = rng.random()
                if how < 0.4:
                    lines.append(f"put {x} into {y}")
                    nested[y] = list(nested[x]); size[y] = size[x]
                elif how < 0.7:
                    k = rng.choice(KEYS)
                    lines.append(f"let {y} at {k} be {x}")
                    nested[y] = [k]; size[y] = 0
                else:
                    lines += [f"Keep{y} takes P", f"rock P with \"fromcallee\"", "give back P", "", f"put Keep{y} taking {x} into {y}"]
                    nested[y] = list(nested[x]); size[y] = size[x] + 1
                live.append(y)
            elif c < 0.4:
                k = rng.choice(KEYS)
                v = rng.choice(['9', '"s"', 'mysterious', x])
                lines.append(f"let {x} at {k} be {v}")
                if v == x and k not in nested[x]:
                    nested[x].append(k)
                elif v != x and k in nested[x]:
                    nested[x].remove(k)
            elif c < 0.5:
                k = rng.choice(["7", "8", '"deep"'])
                lines.append(f"let {x} at {k} at {rng.choice(KEYS[:6])} be {rng.randint(10, 99)}")
                if k not in nested[x]:
                    nested[x].append(k)
            elif c < 0.65:
                if rng.random() < 0.4:
                    lines.append(f"rock {x} with {rng.randint(10, 99)}, {x}")
                    nested[x].append(str(size[x] + 1))
                    size[x] += 2
                else:
                    lines.append(f"rock {x} with {rng.randint(10, 99)}")
                    size[x] += 1
            elif c < 0.8:
                lines.append(rng.choice([f"roll {x}", f"roll {x} into T", f"say roll {x}"]))
                nested[x] = [str(int(k) - 1) if k.isdigit() and int(k) > 0 else k for k in nested[x] if k != "0" and not re.match(r"^\d+\.", k)]
                size[x] = max(0, size[x] - 1)
            elif c < 0.9:
                lines.append(f"say {x} at {rng.choice(KEYS)}")
            else:
                lines.append(rng.choice([f"say {x} plus 1", f"say {x} is 3", f"say {x} times 2", f"say {x} is greater than 2", f"say {x} is {rng.choice(live)}"]))
        for v in live:
            lines += [f"say {v}", f"say {v} at 0", f"say {v} at \"k\"", f"say {v} at 1", f"say {v} at 2", f"say {v} at 3"]
        for v in live:
            for k in nested[v]:
                if re.match(r"^[0-9]+$|^\"", k) or k in ("true", "false", "null", "mysterious"):
                    lines += [f"say {v} at {k}", f"say {v} at {k} at 0", f"say {v} at {k} at 1", f"say {v} at {k} at 2", f"say {v} at {k} at \"k\""]
        out.append({"src": "\n".join(lines) + "\n", "meta": "history"})
    return out


def write_targets():
    """every kind of thing a subscript write / rock / roll / mutation can be aimed at: a variable, a pronoun (also through
    nested subscripts), an unbound name, and the things that are not writable (literals, calls, pops, expressions)"""
    pre = "Gimme takes V\ngive back V\n\nrock Arr with 1, 2, 3\nput 7 into Num\nput \"str\" into Str\n"
    targets = ["Arr", "it", "Fresh", "Num", "Str", "5", "\"lit\"", "mysterious", "Gimme taking Arr", "roll Arr", "Arr at 0", "it at 1", "Arr at 0 at 1",
               "Fresh at \"k\" at 2", "Num at 0", "Str at 0", "5 at 0", "\"lit\" at 0", "Gimme taking Arr at 0", "roll Arr at 0", "it at it", "Arr at it"]
    forms = ["let {T} at 0 be 9", "let {T} at \"k\" at 1 be 9", "let {T} be 9", "put 9 into {T} at 2", "rock {T} with 8", "rock {T}", "roll {T}", "roll {T} into Out",
             "build {T} up", "knock {T} down", "cut {T}", "join {T}", "cast {T}", "turn up {T}", "listen to {T} at 0", "let {T} be with 1", "{T} at 0 is 5"]
    out = []
    for t in targets:
        for f in forms:
            if " at 0" in f and " at " in t and f.startswith("build"):
                continue
            st = f.replace("{T}", t)
            for last in ("put Arr into Last\n", "put Num into Last\n"):
                out.append({"src": pre + last + st + "\nsay Arr\nsay Arr at 0\nsay Num\nsay Str\nsay Last\nsay it\n", "stdin": "in\n", "meta": f"write target `{st}`"})
    for depth in (7, 8, 9, 10, 17, 40):
        chain = " at 1" * depth
        for pre2 in ("", "put \"abc\" into Deep\n", "rock Deep with 1, 2\n", "put 5 into Deep\n"):
            out.append({"src": pre + pre2 + f"let Deep{chain} be 5\nsay Deep{chain}\nsay Deep at 1\nsay Deep\n", "stdin": "", "meta": f"subscript chain of {depth}"})
            out.append({"src": pre + pre2 + f"rock Deep{chain} with 1, 2\nroll Deep{chain} into Got\nsay Got\nbuild Deep{chain} up\nsay Deep{chain}\n", "stdin": "", "meta": f"subscript chain of {depth}"})
    return out


def run(chk):
    proved = setup(chk, "C06")
    rng = rng_for(chk, 6)
    quick = chk.tier == "quick"
    U = values.universe(small=True)
    arrs = [v for v in values.universe(small=False) if values.kind(v) == "array"]
    lines = []
    for i, a in enumerate(arrs + U[:8]):
        for j, k in enumerate(U + arrs[:3]):
            lines.append(f"(val ix{i}_{j} index {a} {k})")
            lines.append(f"(val up{i}_{j} update {a} {k} (s {C.hx('new')}))")
        lines.append(f"(val po{i} pop {a})")
        lines.append(f"(val pu{i} push {a} ((f 3ff0000000000000) u))")
        lines.append(f"(val pe{i} push {a} ())")
        lines.append(f"(val dc{i} output {a})")
    big = [1e6, 65535.0, 65536.0, 1e30, float("inf")]
    for j, x in enumerate(big):
        lines.append(f"(val bg{j} update (a () ()) {values.num(x)} n)")
    res, _ = suite.compare(chk, lines, "val", suite_name="VAL-arrays")
    for l in lines:
        cid = C.case_id(l)
        r = res["debug"].get(cid, "")
        chk.distinct.add((cid[:2], " ".join(r.split(" ")[:2]) if r.startswith("err") else r[:40]))
    cases = [{"src": c["src"], "meta": c.get("note")} for c in corpus_cases("exec")]
    cases += histories(rng, 300 if quick else 4000)
    cases += write_targets()
    recs = execsuite.run(chk, cases, "hist", suite_name="EXEC-array-histories")
    record_exec(chk, recs, sig=lambda r: (r["impl"].get("debug", "")[:120],))
    gen = exec_cases(chk, 200 if quick else 2000, focus={"array": 8, "mutation": 2, "func": 2}, salt=66)
    recs2 = execsuite.run(chk, gen, "gen", suite_name="EXEC-gen")
    record_exec(chk, recs2)
    chk.rule = ("VAL: index / index-write / rock / roll / print on every array of U (with dictionaries in different insertion orders) "
                "x every key kind, plus out-of-budget indices; EXEC: operation histories over up to four variables copied from one "
                "another by assignment, storing into another array and passing to a function that mutates its parameter, then "
                "mutated in random order and printed; 22 write targets (variable, pronoun, unbound, scalars, literals, calls, pops, nested "
                "subscripts, pronoun subscripts) x 17 writing statement forms; distinct = outputs")
    conclude(chk, "C06", proved)
