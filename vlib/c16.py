"""C16 — visitors see every node exactly once, in order, and stop at the first error."""
from . import suite, gen_prog
from .propbase import *

FIXED = [
    "if apple\nshout banana\nelse\nshout cherry\nshout durian\n\nshout elder\n",
    "shout apple plus banana, cherry, 4\nshout durian\n",
    "cut apple into banana with cherry\njoin x into y at 1 with z\n",
    "F takes alpha, beta and gamma\ngive back alpha at beta at gamma\n\nsay F taking 1, x, F taking 2, 3, 4\n",
    "rock x with 1, 2, y\nrock x like a razor's edge. ok\nroll x into y at 1\nx is a b. c-d e's\nlet x at 1 at 2 be with y, z\n",
    "while a\nuntil b\nif c\nsay d\nelse\nsay e\n\n\n\nbuild f up\nknock g down\nlisten to h\nlisten\nturn up i at 1\nbreak\ncontinue\n",
    # empty blocks in every position: then, else, loop bodies, function bodies
    "if a\n\nsay b\n", "if a\n\nelse\n\nsay b\n", "if a\nsay b\nelse\n\nsay c\n", "while a\n\nsay b\n", "until a at b\n\nsay c\n",
    "F takes x\n\nsay F taking y\n", "if a\nwhile b\n\n\nsay c\n", "if a\nif b\n\nelse\n\n\nsay c\n",
    # every statement kind once more with the rarer optional parts present / absent
    "cast x\ncast x with y\ncast x into y\ncast x into y with z\nturn x up\nturn round x at y\nrock x\nroll x\nroll x at y into z at w\n",
    "let x be y\nlet x be times y\nlet x at y be z, w\nput x at y at z into w at v\nx is y\nx says y z\nmy heart is true\nTom Sawyer's 5\n",
    "give back x\nF taking x, y at z\nsay roll roll x\nsay not not x\nsay - x\nsay x is not y\nsay x is as big as y\n",
]


def run(chk):
    proved = setup(chk, "C16")
    rng = rng_for(chk, 16)
    quick = chk.tier == "quick"
    progs, stats = gen_prog.gen_programs(rng.randrange(10 ** 9), 150 if quick else 2000)
    for k, v in stats.items():
        chk.count("gen:" + k, v)
    progs = FIXED + progs
    lines = []
    first = [f"(ana v{i} visit {C.hx(p)} none)" for i, p in enumerate(progs)]
    res0, _ = C.run_cases({"debug": first}, "C16_count")
    for i, p in enumerate(progs):
        r = res0["debug"].get(f"v{i}", "")
        lines.append(f"(ana v{i} visit {C.hx(p)} none)")
        if not r.startswith("ok calls="):
            continue
        n = int(r.split(" ")[1].split("=")[1])
        ks = list(range(n + 1))
        if quick and len(ks) > 12:
            ks = sorted(set(rng.sample(ks, 10) + [0, n - 1, n]))
        elif len(ks) > 60:
            ks = sorted(set(rng.sample(ks, 50) + [0, n - 1, n]))
        for k in ks:
            lines.append(f"(ana w{i}_{k} visit {C.hx(p)} {k})")
    # a visitor whose output is not a monoid (default "0", combine a b = "(a+b)"): how results are folded, not only what is seen
    lines += [f"(ana s{i} shape {C.hx(p)})" for i, p in enumerate(progs)]
    res, _ = suite.compare(chk, lines, "visit", project=lambda x: x, suite_name="VISIT")
    bad = 0
    for l in lines:
        cid = C.case_id(l)
        for side in ("debug", "release"):
            r = res[side].get(cid, "")
            if cid.startswith("w"):
                k = int(cid.split("_")[1])
                i = int(cid[1:].split("_")[0])
                total = int(res0["debug"][f"v{i}"].split(" ")[1].split("=")[1])
                want = f"err {k} calls={k + 1}" if k < total else None
                if want and r != want:
                    bad += 1
                    if bad <= 4:
                        chk.add_violation(f"a visitor failing at callback {k} did not end the walk there: {r[:60]}",
                                          {"oracle": "stop-at-first-error", "profile": side, "src": progs[i], "fail_at": k, "expected": want, "impl": r[:200]})
        chk.distinct.add((cid[0], hash(l) % 1000003))
    chk.samples = [C.decode_hex_fields(l)[:200] for l in lines[:3]]
    chk.rule = ("hand-written programs covering else blocks, mutation parameters/destinations, function parameters, list tails, "
                "nested subscripts, poetic literal elements, plus generated programs; a recording visitor written against the public "
                "VisitExpr/ExprVisitorRunner traits with the k-th callback failing, for k = every callback index (sampled when "
                "large) and no failure; compared with the model's traversal: the event log (kind, payload, range) in order, the "
                "callback count, and the error returned; oracle: failing at k returns Err(k) after exactly k+1 callbacks")
    conclude(chk, "C16", proved)
