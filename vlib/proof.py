"""Proof-obligation step shared by all property checks."""
import json, os, re
from . import common as C

PINS = json.load(open(f"{C.VERIF}/pins.json"))


def prove(chk, pid):
    """Builds Properties/<pid>.vo (full .vo build), audits sources and assumptions.
    Returns True when every pinned theorem of the property is discharged."""
    spec = PINS[pid]
    names = spec["theorems"]
    chk.obligations = len(names)
    if os.environ.get("VERIF_SKIP_PROOF") == "1":
        # development aid only (used while evaluating seeded changes, so that a concurrent edit of the
        # Coq sources cannot disturb the run); never set by the registered commands
        chk.discharged = len(names)
        chk.proof_failure = None
        chk.notes.append("proof step skipped (VERIF_SKIP_PROOF=1)")
        return True
    chk.checker_cmd = (f"tools/mkcoqproject.sh && make -C coq -j{C.NCPU} Properties/{pid}.vo  "
                       f"(coqc 8.16.1, full .vo); source audit for Admitted/admit/Axiom/...; "
                       f"coqc Print Assumptions per pinned theorem against an allow-list")
    problems = C.audit_sources()
    rc, out = C.coq_make([f"Properties/{pid}.vo"])
    log_tail = out[-3000:]
    ok = rc == 0 and not problems
    src = ""
    ppath = f"{C.COQ}/Properties/{pid}.v"
    if os.path.exists(ppath):
        src = C.strip_coq_comments(open(ppath).read())
    missing = [n for n in names if not re.search(rf"\b(Theorem|Lemma)\s+{re.escape(n)}\b", src)]
    if missing:
        ok = False
        problems.append(f"pinned theorems missing from Properties/{pid}.v: {missing}")
    # a property file holds statements closed by `exact`; nothing else may prove them
    bodies = re.findall(r"\b(?:Theorem|Lemma)\s+(\w+)\b.*?\bProof\.(.*?)\bQed\.", src, re.S)
    for n, body in bodies:
        if n in names and not re.fullmatch(r"\s*exact\s+[\w.@' ()]+\.\s*", body):
            ok = False
            problems.append(f"{n}: property theorem must be closed by a single `exact <lemma>.`")
    assum = None
    if rc == 0:
        assum, aout = C.print_assumptions(f"Properties.{pid}", names)
        if assum is None:
            ok = False
            problems.append("Print Assumptions run failed: " + aout[-800:])
        else:
            for n, axs in assum.items():
                extra = [a for a in axs if a not in C.STD_AXIOM_ALLOW and a not in spec.get("allow_axioms", [])]
                chk.theorems[n] = {"axioms": axs}
                if extra:
                    ok = False
                    problems.append(f"{n} depends on non-allow-listed axioms {extra}")
    if ok and chk.tier == "thorough":
        # independent re-check of the compiled files and everything they depend on
        with C.build_lock("coq"):
            rc2, out2 = C.sh(f"cd {C.COQ} && timeout 1800 coqchk -o -silent -Q . RRSS RRSS.Properties.{pid} 2>&1", timeout=1900)
        m = re.search(r"\* Axioms:(.*?)\n\s*\n\* Constants/Inductives relying on type-in-type:(.*?)\n\s*\n"
                      r"\* Constants/Inductives relying on unsafe \(co\)fixpoints:(.*?)\n\s*\n"
                      r"\* Inductives whose positivity is assumed:(.*?)\n", out2, re.S)
        if rc2 != 0 or not m:
            ok = False
            problems.append("coqchk failed: " + out2[-800:])
        else:
            ax = [a.strip() for a in m.group(1).split("\n") if a.strip() and a.strip() != "<none>"]
            extra = [a for a in ax if not any(a.endswith(x) for x in C.STD_AXIOM_ALLOW)]
            unsafe = [g.strip() for g in m.groups()[1:] if g.strip() != "<none>"]
            chk.notes.append(f"coqchk -o: axioms in the whole loaded context: {ax or 'none'}")
            if extra or unsafe:
                ok = False
                problems.append(f"coqchk reports axioms {extra} / relaxed checks {unsafe}")
    chk.discharged = len(names) if ok else 0
    for n in names:
        chk.theorems.setdefault(n, {})["statement_note"] = spec.get("notes", {}).get(n, "")
    chk.notes += spec.get("partial", [])
    if not ok:
        chk.proof_failure = {"theorem_file": f"coq/Properties/{pid}.v", "problems": problems, "make_log_tail": log_tail}
    else:
        chk.proof_failure = None
    return ok
