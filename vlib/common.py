"""Shared plumbing for the rrss checks: builds, suite runs, evidence, verdicts."""
import hashlib, json, os, re, subprocess, sys, time
from concurrent.futures import ThreadPoolExecutor

VERIF = "/verif"
REPO = "/repo"
BUILD = f"{VERIF}/.build"
COQ = f"{VERIF}/coq"
HARNESS_DEBUG = os.environ.get("VERIF_HARNESS_DEBUG") or f"{BUILD}/target/debug/rrss-verif-harness"   # override: tools/coverage.sh only
HARNESS_RELEASE = f"{BUILD}/target/release/rrss-verif-harness"
DRIVER = f"{BUILD}/ocaml/driver"
RRSS_BIN_DEBUG = f"{BUILD}/target/debug/rrss"
RRSS_BIN_RELEASE = f"{BUILD}/target/release/rrss"
GUARD_CFG = "rrss_verif"
NCPU = os.cpu_count() or 4

ENV = dict(os.environ, CARGO_NET_OFFLINE="true", RUSTFLAGS=f"--cfg {GUARD_CFG}", NO_COLOR="1")


def seed():
    try:
        return int(os.environ.get("VERIF_SEED", "0"))
    except ValueError:
        return 0


def sh(cmd, timeout=1800, cwd=None, env=None):
    p = subprocess.run(cmd, shell=isinstance(cmd, str), cwd=cwd, env=env or ENV,
                       stdout=subprocess.PIPE, stderr=subprocess.STDOUT, timeout=timeout)
    return p.returncode, p.stdout.decode("utf-8", "replace")


import contextlib, fcntl


@contextlib.contextmanager
def build_lock(name):
    """Serialises a build step across check processes started at the same time (two `make`s or two extractions in
    the same directory would corrupt each other); running the suites themselves needs no lock."""
    os.makedirs(BUILD, exist_ok=True)
    with open(f"{BUILD}/{name}.lock", "w") as f:
        fcntl.flock(f, fcntl.LOCK_EX)
        try:
            yield
        finally:
            fcntl.flock(f, fcntl.LOCK_UN)


class BuildFailure(Exception):
    def __init__(self, what, log):
        super().__init__(what)
        self.what = what
        self.log = log


# ---------------------------------------------------------------- Coq

def coq_make(targets=None, timeout=3000):
    """Full .vo build (never -vos) of the development, or of the given .vo targets."""
    with build_lock("coq"):
        rc, out = sh(f"{VERIF}/tools/mkcoqproject.sh")
        if rc != 0:
            raise BuildFailure("coq_makefile", out)
        tgt = " ".join(targets) if targets else ""
        rc, out = sh(f"timeout {timeout} make -j{NCPU} {tgt}", cwd=COQ, timeout=timeout + 60)
    return rc, out


FORBIDDEN = re.compile(
    r"\b(Admitted|admit|Axiom|Axioms|Parameter|Parameters|Conjecture|Conjectures|Admit Obligations|"
    r"Unset Guard Checking|Unset Positivity Checking|Unset Universe Checking|bypass_check|"
    r"type-in-type|impredicative-set)\b")
SECTIONLESS = re.compile(r"^\s*(Variable|Variables|Hypothesis|Hypotheses|Context)\b")


def strip_coq_comments(text):
    out, depth, i = [], 0, 0
    while i < len(text):
        if text.startswith("(*", i):
            depth += 1
            i += 2
        elif text.startswith("*)", i) and depth > 0:
            depth -= 1
            i += 2
        else:
            if depth == 0:
                out.append(text[i])
            elif text[i] == "\n":
                out.append("\n")
            i += 1
    return "".join(out)


def audit_sources():
    """Forbidden words anywhere in the development; Variable/Hypothesis outside a Section."""
    problems = []
    for root, _, files in os.walk(COQ):
        for f in files:
            if not f.endswith(".v"):
                continue
            path = os.path.join(root, f)
            text = strip_coq_comments(open(path, encoding="utf-8").read())
            # string literals may legitimately contain words
            text_ns = re.sub(r'"[^"]*"', '""', text)
            depth = 0
            for ln, line in enumerate(text_ns.split("\n"), 1):
                m = FORBIDDEN.search(line)
                if m:
                    problems.append(f"{path}:{ln}: forbidden `{m.group(0)}`")
                if re.match(r"^\s*Section\b", line):
                    depth += 1
                elif re.match(r"^\s*End\b", line) and depth > 0:
                    depth -= 1
                elif depth == 0 and SECTIONLESS.match(line):
                    problems.append(f"{path}:{ln}: `{line.strip()[:40]}` outside a Section")
    return problems


STD_AXIOM_ALLOW = {
    # axioms declared by Coq's own standard library, reached only through Flocq/Reals
    "ClassicalDedekindReals.sig_forall_dec",
    "ClassicalDedekindReals.sig_not_dec",
    "FunctionalExtensionality.functional_extensionality_dep",
    "Classical_Prop.classic",
}


def print_assumptions(module, names):
    """Returns {name: [axioms]} using a throw-away coqc run against the compiled development."""
    os.makedirs(f"{BUILD}/audit", exist_ok=True)
    path = f"{BUILD}/audit/Audit_{module.replace('.', '_')}.v"
    with open(path, "w") as f:
        f.write(f"From RRSS Require Import {module}.\n")
        for n in names:
            f.write(f'Goal True. idtac "@@BEGIN {n}". Abort.\nPrint Assumptions {n}.\nGoal True. idtac "@@END {n}". Abort.\n')
    with build_lock("coq"):
        rc, out = sh(f"timeout 600 coqc -Q {COQ} RRSS {path}", cwd=f"{BUILD}/audit")
    res = {}
    if rc != 0:
        return None, out
    for n in names:
        m = re.search(rf"@@BEGIN {re.escape(n)}\n(.*?)@@END {re.escape(n)}", out, re.S)
        if not m:
            return None, out
        body = m.group(1)
        if "Closed under the global context" in body:
            res[n] = []
        else:
            axs = re.findall(r"^([A-Za-z_][\w.']*)\s*:", body, re.M)
            res[n] = [a for a in axs if a not in ("Axioms", "Section", "Variables", "Opaque")]
    return res, out


# ---------------------------------------------------------------- Rust / OCaml builds

def build_harness():
    """Rebuilds the implementation from /repo's working tree (debug and release) plus the harness."""
    os.makedirs(BUILD, exist_ok=True)
    if os.environ.get("VERIF_SKIP_BUILD") == "1":      # tools/coverage.sh: binaries were built by the caller
        return ""
    logs = []
    with build_lock("cargo"):
        sh(f"cp {REPO}/Cargo.lock {VERIF}/harness/Cargo.lock")
        for prof in ("", "--release"):
            rc, out = sh(f"cargo build --offline {prof}", cwd=f"{VERIF}/harness", timeout=1500)
            logs.append(out)
            if rc != 0:
                raise BuildFailure("cargo build harness " + prof, out[-4000:])
    return "\n".join(logs)


def build_rrss_bin():
    with build_lock("cargo"):
        for prof in ("", "--release"):
            rc, out = sh(f"cargo build --offline {prof} --bin rrss --target-dir {BUILD}/target", cwd=REPO, timeout=1500)
            if rc != 0:
                raise BuildFailure("cargo build rrss " + prof, out[-4000:])


def build_driver():
    with build_lock("coq"):
        rc, out = sh(f"{VERIF}/tools/build_driver.sh", timeout=1500)
    if rc != 0:
        raise BuildFailure("extract+ocaml driver", out[-4000:])


# ---------------------------------------------------------------- suites

def hx(s):
    if isinstance(s, str):
        s = s.encode("utf-8")
    return "#" + s.hex()


def unhex(a):
    assert a.startswith("#"), a
    return bytes.fromhex(a[1:]).decode("utf-8", "replace")


def decode_hex_fields(text):
    return re.sub(r"#([0-9a-f]*)", lambda m: json.dumps(bytes.fromhex(m.group(1)).decode("utf-8", "replace")), text)


def _big_stack():
    import resource
    try:
        resource.setrlimit(resource.RLIMIT_STACK, (resource.RLIM_INFINITY, resource.RLIM_INFINITY))
    except Exception:
        pass


def _run_tool(cmd, cases_path, out_path, timeout, env=None):
    try:
        p = subprocess.run(cmd + [cases_path, out_path], stdout=subprocess.PIPE, stderr=subprocess.STDOUT,
                           timeout=timeout, env=env or ENV, preexec_fn=_big_stack)
        return p.returncode, p.stdout.decode("utf-8", "replace")
    except subprocess.TimeoutExpired:
        return 124, "timeout"


def _read_results(path):
    res = {}
    if not os.path.exists(path):
        return res
    with open(path, encoding="utf-8", errors="replace") as f:
        for line in f:
            line = line.rstrip("\n")
            if "\t" in line:
                i, r = line.split("\t", 1)
                res[i] = r
    return res


TOOLS = {"model": [DRIVER], "debug": [HARNESS_DEBUG, "run"], "release": [HARNESS_RELEASE, "run"]}


def tool_for(side):
    if side.startswith("model"):
        return TOOLS["model"]
    return TOOLS[side]


def _run_shard(side, k, chunk, work, timeout):
    """Runs one shard; if the tool dies (abort, stack overflow) the case it died on is marked
    'tool-died' and the remaining cases are re-run, so one crash does not hide the others."""
    results = {}
    died = []
    pending = list(chunk)
    attempt = 0
    while pending and attempt < 25:
        cp = f"{work}/cases_{side}_{k}_{attempt}.txt"
        op = f"{work}/out_{side}_{k}_{attempt}.txt"
        with open(cp, "w", encoding="utf-8") as f:
            f.write("\n".join(pending) + "\n")
        if os.path.exists(op):
            os.remove(op)
        rc, out = _run_tool(tool_for(side), cp, op, timeout)
        r = _read_results(op)
        results.update(r)
        if rc == 0 and all(case_id(l) in r for l in pending):
            break
        # find the first unanswered case: that is the one the tool died (or hung) on
        idx = next((i for i, l in enumerate(pending) if case_id(l) not in r), None)
        if idx is None:
            break
        results[case_id(pending[idx])] = "tool-died"
        died.append((k, rc, out[-300:], case_id(pending[idx])))
        pending = pending[idx + 1:]
        attempt += 1
    return side, results, died


def run_cases(lines, tag, sides=("model", "debug", "release"), timeout=600, shards=None, confirm=True):
    """lines: a list (same cases for every side) or a dict side -> list.
    Returns ({side: {id: result}}, {side: [deaths]})."""
    work = f"{BUILD}/work/{tag}"
    if os.path.isdir(work):
        for f in os.listdir(work):
            os.remove(os.path.join(work, f))
    os.makedirs(work, exist_ok=True)
    by_side = lines if isinstance(lines, dict) else {s: lines for s in sides}
    sides = list(by_side.keys())
    jobs = []
    for side in sides:
        ls = by_side[side]
        n = len(ls)
        sh_n = shards or max(1, min(NCPU // 2, (n + 149) // 150))
        for k in range(sh_n):
            chunk = ls[k::sh_n]
            if chunk:
                jobs.append((side, k, chunk))
    results = {s: {} for s in sides}
    died = {s: [] for s in sides}
    with ThreadPoolExecutor(max_workers=NCPU) as ex:
        for side, r, d in ex.map(lambda j: _run_shard(j[0], j[1], j[2], work, timeout), jobs):
            results[side].update(r)
            died[side] += d
    for side in sides:
        for l in by_side[side]:
            results[side].setdefault(case_id(l), "tool-died")
    if confirm:
        _confirm_timeouts(by_side, results, work)
    return results, died


def _confirm_timeouts(by_side, results, work):
    """The harness gives each case a wall-clock limit (5 s); on a loaded machine a case that takes
    milliseconds can exceed it.  A 'timeout' is therefore only reported after the case has timed out
    again when run alone (one case per process, nothing else of ours running) with a limit of 60 s."""
    env = dict(ENV, VERIF_CASE_TIMEOUT="60")
    # cases the model itself gives up on (step/size budget) are discarded by every comparison: no need to wait
    long_running = {cid for side in by_side if side.startswith("model")
                    for cid, r in results[side].items() if r.startswith(("outoffuel", "overbudget"))}
    for side, ls in by_side.items():
        if side.startswith("model"):
            continue
        again = [l for l in ls if results[side].get(case_id(l)) == "timeout" and case_id(l) not in long_running]
        confirmed = 0
        for n, l in enumerate(again[:40]):
            if confirmed >= 3:      # a real hang: no need to wait a minute for each further case
                break
            cp, op = f"{work}/retry_{side}_{n}.txt", f"{work}/retry_out_{side}_{n}.txt"
            with open(cp, "w", encoding="utf-8") as f:
                f.write(l + "\n")
            if os.path.exists(op):
                os.remove(op)
            _run_tool(tool_for(side), cp, op, 120, env=env)
            r = _read_results(op)
            if case_id(l) in r:
                results[side][case_id(l)] = r[case_id(l)]
            if r.get(case_id(l), "timeout") == "timeout":
                confirmed += 1


def case_id(line):
    m = re.match(r"\(\S+ (\S+) ", line)
    return m.group(1) if m else "?"


# ---------------------------------------------------------------- replays

def generic_replay(rep):
    """./check <pid> --replay <file>: runs the recorded case again on /repo's current tree (and on the
    model) and shows both.  Exit 1 if the recorded failure is still there, 0 if it is gone."""
    def show(k, v):
        if isinstance(v, str):
            v = decode_hex_fields(v)
            v = re.sub(r"out:([0-9a-f]*)$", lambda m: "out:" + json.dumps(bytes.fromhex(m.group(1)).decode("utf-8", "replace")), v)
        print(f"  {k}: {v}")
    print(f"replay of {rep.get('property')} ({rep.get('tier')}, seed {rep.get('seed')}): {rep.get('summary')}")
    if "case" not in rep and "src" not in rep:
        for k, v in rep.items():
            show(k, v)
        print("  (no input to run: this replay names a theorem, a build step or a suite that no longer checks)")
        return 1
    build_harness()
    build_driver()
    if "case" in rep:
        line = rep["case"]
        res, _ = run_cases([line], "replay")
        cid = case_id(line)
        print("  case:", decode_hex_fields(line))
        out = {s: res[s].get(cid, "?") for s in res}
        for s, v in out.items():
            show(s, v)
        strip = lambda t: re.sub(r"^(err \S+)( #[0-9a-f]*)?$", r"\1", "crash" if t.startswith(("panic", "ub ", "tool-died")) else t)
        still = len({strip(v) for v in out.values()}) > 1
    else:
        o = lambda x: "none" if x is None else str(x)
        base = f"(exec c0 run {hx(rep['src'])} {hx(rep.get('stdin') or '')} {o(rep.get('write_budget'))} {o(rep.get('read_fault'))}"
        res, _ = run_cases({"debug": [base + ")"], "release": [base + ")"],
                            "model_debug": [base + " debug)"], "model_release": [base + " release)"]}, "replay")
        print("  program:")
        for l in rep["src"].split("\n"):
            print("    | " + l)
        if rep.get("stdin"):
            print("  stdin:", json.dumps(rep["stdin"]))
        out = {s: res[s].get("c0", "?") for s in res}
        for s, v in out.items():
            show(s, v)
        if isinstance(rep.get("impl"), str):        # an oracle on the implementation alone
            print("  recorded:", decode_hex_fields(rep["impl"]))
            still = out.get(rep.get("profile", "debug")) == rep["impl"]
        else:
            strip = lambda t: re.sub(r"^(err \S+)( #[0-9a-f]*)? ?", r"\1 ", "crash" if t.startswith(("panic", "ub ", "tool-died")) else t)
            still = strip(out["debug"]) != strip(out["model_debug"]) or strip(out["release"]) != strip(out["model_release"])
    print("  => " + ("the recorded failure is still there" if still else "no longer fails"))
    return 1 if still else 0


# ---------------------------------------------------------------- verdicts / evidence

def load_known_findings():
    p = f"{VERIF}/known_findings.json"
    if os.path.exists(p):
        return json.load(open(p))
    return {"findings": [], "fixed": []}


class Check:
    """Accumulates what one property check did; writes evidence; prints verdict lines."""

    def __init__(self, pid, tier):
        self.pid = pid
        self.tier = tier
        self.t0 = time.time()
        self.violations = []      # (summary, replay dict)
        self.known = []
        self.obligations = 0
        self.discharged = 0
        self.theorems = {}
        self.evals = 0
        self.distinct = set()
        self.samples = []
        self.dist = {}
        self.notes = []
        self.assumptions = []
        self.trusted = []
        self.rule = ""
        self.checker_cmd = ""
        self.drift = []
        self.suites = {}

    def count(self, key, n=1):
        self.dist[key] = self.dist.get(key, 0) + n

    def add_violation(self, summary, replay, no_input=False):
        self.violations.append((summary, replay, no_input))

    def finish(self):
        # development aid (seeded-change evaluation): keep runs against a patched /repo away from the committed evidence
        evdir = os.environ.get("VERIF_EVIDENCE_DIR", f"{VERIF}/evidence")
        os.makedirs(evdir, exist_ok=True)
        os.makedirs(f"{VERIF}/replays", exist_ok=True)
        wall = time.time() - self.t0
        vio_lines = []
        for summary, replay, no_input in self.violations:
            blob = json.dumps(replay, sort_keys=True, ensure_ascii=False)
            h = hashlib.sha1(blob.encode()).hexdigest()[:10]
            path = f"{VERIF}/replays/{self.pid}-{h}.json"
            replay = dict(replay, property=self.pid, tier=self.tier, seed=seed(), summary=summary,
                          replay_cmd=f"./check {self.pid} --replay {path}")
            with open(path, "w") as f:
                json.dump(replay, f, indent=1, ensure_ascii=False)
            vio_lines.append(f"VIOLATION property={self.pid} replay={path}" + (" no-failing-input-found" if no_input else ""))
            why = summary
            for key in ("what", "problems", "traceback", "theorem_or_suite", "log_tail"):
                if key in replay:
                    why += f" | {key}: " + str(replay[key])[-600:].replace("\n", " // ")
            vio_lines.append("  why: " + why[:1500])
        ev = {
            "property_id": self.pid,
            "tier": self.tier,
            "seed": seed(),
            "level": "proof",
            "coverage": {
                "obligations": self.obligations,
                "discharged": self.discharged,
                "checker_cmd": self.checker_cmd or f"make -C {COQ} (coqc 8.16.1, full .vo build) + Print Assumptions audit",
                "trusted_base": self.trusted,
                "theorems": self.theorems,
                "evaluations": self.evals,
                "distinct_nontrivial": len(self.distinct),
                "rule": self.rule,
                "samples": self.samples[:12],
                "distribution": self.dist,
                "suites": self.suites,
                "model_drift_notes": self.drift[:20],
                "notes": self.notes,
                "known_findings_reported": self.known,
            },
            "assumptions": self.assumptions,
            "wall_s": round(wall, 2),
            "violations": len(self.violations),
        }
        with open(f"{evdir}/{self.pid}.json", "w") as f:
            json.dump(ev, f, indent=1, ensure_ascii=False)
        for k in self.known:
            print(f"KNOWN-FINDING: property={self.pid} {k}")
        for l in vio_lines:
            print(l)
        print(f"[{self.pid}] tier={self.tier} obligations={self.discharged}/{self.obligations} "
              f"cases={self.evals} distinct={len(self.distinct)} violations={len(self.violations)} wall={wall:.1f}s")
        return 1 if self.violations else 0
