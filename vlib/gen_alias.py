"""Every keyword alias in every grammatical position of its group: statement templates with one placeholder per keyword
occurrence; each occurrence in turn is spelled with each alias of its token type (lower case, Title case, upper case)
while the other occurrences keep the first alias.  The alias table is read from the model (coq/Front/Token.v); that the
implementation has no other alias is suite KW's business.  No oracle of its own: model = implementation on the run."""
import re

TEMPLATES = [
    "{TPut} 5 {TInto} Xv\n{TSay} Xv\n",
    "{TLet} Xv {TBe} 5\n{TLet} Xv {TBe} {TWith} 2\n{TLet} Xv {TBe} {TMinus} 1\n{TLet} Xv {TBe} {TMultiply} 3\n{TLet} Xv {TBe} {TDivide} 2\n{TLet} Xv {TBe} {TPlus} 2\n{TSayAlias} Xv\n",
    "Xv {TIs} 5\nYv {TIs} {TTrue}\nZv {TIs} {TNull}\nWv {TIs} {TEmpty}\nVv {TIs} {TMysterious}\nUv {TIs} {TFalse}\n{TSay} Xv\n{TSay} Yv\n{TSay} Zv\n{TSay} Wv\n{TSay} Vv\n{TSay} Uv\n",
    "Xv {TSays} hello there\n{TSay} Xv\n",
    "{TLet} Xv {TBe} 5\n{TSay} Xv {TPlus} 1\n{TSay} Xv {TMinus} 1\n{TSay} Xv {TMultiply} 2\n{TSay} Xv {TDivide} 2\n{TSay} Xv {TWith} 1\n{TSay} {TMinus} Xv\n",
    "{TLet} Xv {TBe} 5\n{TSay} Xv {TIs} 5\n{TSay} Xv {TIsnt} 5\n{TSay} Xv {TIs} {TBigger} {TThan} 3\n{TSay} Xv {TIs} {TSmaller} {TThan} 3\n{TSay} Xv {TIs} {TAs} {TBig} {TAs} 5\n"
    "{TSay} Xv {TIs} {TAs} {TSmall} {TAs} 4\n{TSay} Xv {TIs} {TNot} 4\n",
    "{TSay} {TTrue} {TAnd} {TFalse}\n{TSay} {TTrue} {TOr} {TFalse}\n{TSay} {TFalse} {TNor} {TFalse}\n{TSay} {TNot} {TTrue}\n{TSay} {TNull} {TIs} {TMysterious}\n{TSay} {TEmpty}\n",
    "{TLet} Xv {TBe} 0\n{TWhile} Xv {TIs} {TSmaller} {TThan} 3\n{TBuild} Xv {TUp}\n{TIf} Xv {TIs} 2\n{TContinue}\n{TElse}\n{TSay} Xv\n\n\n{TUntil} Xv {TIs} 0\n{TKnock} Xv {TDown}\n"
    "{TIf} Xv {TIs} 1\n{TBreak}\n\n\n{TSay} Xv\n",
    "{TLet} Xv {TBe} 0\n{TWhile} Xv {TIs} {TSmaller} {TThan} 4\n{TBuild} Xv {TUp}, {TUp}\n{TKnock} Xv {TDown}\n{TIf} Xv {TIs} 1\n{TTake} {TPronoun} {TTo} the {TTop}\n\n"
    "{TIf} Xv {TIs} 3\n{TBreak} {TPronoun} {TDown}\n\n{TSay} Xv\n\n{TSay} Xv\n",
    "Fv {TTakes} Pv {TAnd} Qv\n{TReturn} Pv {TPlus} Qv\n\n{TSay} Fv {TTaking} 1, 2\nGv {TTakes} Pv\ngive {TBack} Pv\n\n{TSay} Gv {TTaking} 3\nHv {TTakes} Pv\n{TReturn} Pv {TBack}\n\n{TSay} Hv {TTaking} 4\n",
    "{TListen} {TTo} Xv\n{TSay} Xv\n{TListen}\n{TListen} {TTo} Yv\n{TSayAlias} Yv\n",
    "{TRock} Av {TWith} 1, 2\n{TRock} Av {TLike} {TCommonVariablePrefix} rolling stone\n{TRoll} Av {TInto} Xv\n{TSay} Xv\n{TSay} Av {TAt} 0\n{TLet} Av {TAt} 1 {TBe} 7\n{TSay} {TRoll} Av\n{TRock} Bv\n{TSay} Bv\n",
    "Sv {TSays} a,b\n{TCut} Sv {TInto} Pv {TWith} \",\"\n{TJoin} Pv {TInto} Jv {TWith} \"-\"\n{TSay} Jv\nNv {TSays} 12\n{TCast} Nv {TInto} Mv {TWith} 10\n{TSay} Mv\n{TCut} Sv\n{TSay} Sv\n",
    "{TLet} Xv {TBe} 3.5\n{TTurn} Xv {TUp}\n{TSay} Xv\n{TLet} Xv {TBe} 3.5\n{TTurn} Xv {TDown}\n{TSay} Xv\n{TLet} Xv {TBe} 3.5\n{TTurn} Xv {TRound}\n{TSay} Xv\n{TLet} Xv {TBe} 2.5\n{TTurn} {TUp} Xv\n{TSay} Xv\n"
    "{TTurn} {TRound} Xv\n{TTurn} {TDown} Xv\n{TSay} Xv\n",
    "{TLet} Xv {TBe} 5\n{TSay} {TPronoun}\n{TBuild} {TPronoun} {TUp}\n{TSay} Xv\n{TPut} {TPronoun} {TInto} Yv\n{TSay} Yv {TWith} {TPronoun}\n",
    "{TCommonVariablePrefix} heart {TIs} 5\n{TSay} {TCommonVariablePrefix} heart\n{TPut} {TCommonVariablePrefix} heart {TInto} {TCommonVariablePrefix} soul\n{TSay} {TCommonVariablePrefix} soul\n",
    "Xv {TIs} {TCommonVariablePrefix} lovestruck ladykiller\n{TSay} Xv\nZv {TIs} lovely {TWith} {TNull} {TMinus} 5\n{TSay} Zv\n",
]


def groups():
    tv = open("/verif/coq/Front/Token.v", encoding="utf-8").read()
    blk = tv[tv.index("Definition keywords"):tv.index("Local Close Scope string_scope")]
    out = {}
    for m in re.finditer(r"kw (T\w+) \[([^\]]*)\]", blk):
        out[m.group(1)] = re.findall(r'"([^"]+)"', m.group(2))
    return out


def programs(quick, rng):
    g = groups()
    out = []
    for ti, t in enumerate(TEMPLATES):
        parts = re.split(r"(\{T\w+\})", t)
        holes = [i for i, p in enumerate(parts) if p.startswith("{T")]

        def render(choice):
            return "".join(choice.get(i, g[p[1:-1]][0]) if i in holes else p for i, p in enumerate(parts))

        out.append({"src": render({}), "stdin": "first\nsecond\n", "meta": {"template": ti, "alias": None, "group": None, "same_tree": False}})
        for h in holes:
            for a in g[parts[h][1:-1]]:
                for cased in (a, a.capitalize(), a.upper()):
                    if quick and cased != a and rng.random() < 0.5:
                        continue
                    grp = parts[h][1:-1]
                    # the tree must equal the first alias's tree, except where the spelling is data: a name prefix, a word of a
                    # poetic literal (last template, `like a rolling stone`), the fixed phrases `take it to the top` / `break it down`
                    same = grp != "TCommonVariablePrefix" and ti != len(TEMPLATES) - 1 and not (grp == "TPronoun" and "{TTake}" in t)
                    out.append({"src": render({h: cased}), "stdin": "first\nsecond\n", "meta": {"template": ti, "alias": cased, "group": grp, "same_tree": same}})
    return out
