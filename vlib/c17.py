"""C17 — the constant folder only reports values the interpreter would compute."""
from . import suite, execsuite
from .propbase import *

NUMS = ["0", "1", "2", "3", "10", "0.5", "0.1", "100", "7", "1e3", "255"]


def const_exprs(rng, n):
    out = []

    def atom(d):
        c = rng.random()
        if c < 0.12 and d < 3:
            return "-" + atom(d + 1)
        return rng.choice(NUMS)

    def expr(d):
        if d > 2 or rng.random() < 0.3:
            return atom(d)
        op = rng.choice(["+", "plus", "with", "-", "minus", "without", "*", "times", "of", "/", "over", "between"])
        s = f"{expr(d + 1)} {op} {atom(d + 1)}"
        if rng.random() < 0.35:
            for _ in range(rng.randint(1, 3)):
                s += rng.choice([", ", ", and "]) + atom(d + 1)
        return s
    for _ in range(n):
        out.append(expr(0))
    return out


NONCONST = ["null plus null", "1 plus null times null", "null with null, 1", "null plus 1", "1 minus null", "true plus 1", "\"a\" times 2", "mysterious minus 1",
            "empty plus 1", "nothing times nothing", "0 times null", "null over 1, 2", "-null", "1 plus true, 2", "gone with 5",
            "my heart", "Tom Sawyer", "the world at 1", "Tom Sawyer taking 1", "0 times my heart", "1 plus Tom Sawyer", "-my heart", "roll my heart",
            "x", "it", "x at 1", "F taking 1", "roll x", "0 times x", "0 times it", "0 times x at 1", "0 times F taking 1", "0 times roll x", "0 times 5, x",
            "2 minus 2 times x", "x times 0", "1 plus x", "not 1", "1 is 1", "1 and 2", "\"a\"", "\"a\" plus \"b\"", "mysterious", "null", "true", "1 plus \"a\"",
            "1 plus true", "-x", "1 minus 2, x", "0 times -1", "0 over -4", "1 over 0", "0 over 0", "-0", "1 is greater than 0", "empty"]


def run(chk):
    proved = setup(chk, "C17")
    rng = rng_for(chk, 17)
    quick = chk.tier == "quick"
    exprs = const_exprs(rng, 400 if quick else 5000) + NONCONST
    exprs += ["10 without 3, 2", "100 over 10, 2", "1 minus 2, 3, 4", "2 times 3, 4", "1 plus 2, 3", "100 minus 10, 20, 30", "100 over 5, 2"]
    prelude = "F takes alpha\ngive back alpha\n\nput \"abc\" into x\n"
    lines, cases = [], []
    for i, e in enumerate(exprs):
        lines.append(f"(ana f{i} fold {C.hx('say ' + e)})")
        cases.append({"src": prelude + f"say {e}\n", "meta": {"expr": e}})
    # poetic number literals (assignment and array push): the folders' own callbacks for them
    poetic = ["a lovestruck ladykiller", "ice. cold", "a. b c", "nothing's wrong", "rock'n'roll", "sweet, sweet dreams.", "x", "antidisestablishmentarianism lovestruck",
              "we're here . now", "mother-in-law's dreams", "a" + " big" * 20, ". a", "a b c d e f g h i j k l m n o p q r s t u v w x y z"]
    for k, pl in enumerate(poetic):
        lines.append(f"(ana p{k} fold {C.hx('Tommy is ' + pl + chr(10) + 'rock the list like ' + pl + chr(10))})")
    res, _ = suite.compare(chk, lines, "fold", project=lambda x: x, suite_name="FOLD")
    recs = execsuite.run(chk, cases, "exec", suite_name="EXEC-folded")
    # fold value -> text through the implementation's own float printing
    want = {}
    dl = []
    for i, e in enumerate(exprs):
        r = res["debug"].get(f"f{i}", "")
        m = r.replace("ok (", "").split(" ")
        if r.startswith("ok (ok:"):
            bits = m[0].split(":")[1]
            want[i] = bits
            dl.append(f"(f64 b{i} display {bits})")
    dres, _ = C.run_cases({"debug": dl}, "C17_disp") if dl else ({"debug": {}}, None)
    bad = 0
    for i, e in enumerate(exprs):
        r = res["debug"].get(f"f{i}", "")
        isconst = i < len(exprs) - len(NONCONST) - 7 or i >= len(exprs) - 7
        chk.count("fold:" + ("value" if i in want else r.split(" ")[1][:24] if r.startswith("ok") else r[:12]))
        chk.distinct.add((e if len(e) < 14 else hash(e) % 100003, i in want))
        for prof in ("debug", "release"):
            st, out = execsuite.split_out(recs[i]["impl"].get(prof, ""))
            if i in want:
                printed = C.unhex(dres["debug"].get(f"b{i}", "ok #")[3:]) if dres["debug"].get(f"b{i}", "").startswith("ok ") else None
                got = bytes.fromhex(out).decode("utf-8", "replace").split("\n")[0] if out is not None else None
                if st != "ok" or got != printed:
                    bad += 1
                    if bad <= 4:
                        chk.add_violation(f"the folder reports {printed} for `{e}`, executing it gives {got!r} ({st[:40]})",
                                          {"oracle": "fold-vs-exec", "profile": prof, "expr": e, "folded": printed, "executed": got, "src": cases[i]["src"]})
            elif isconst and prof == "debug":
                bad += 1
                if bad <= 4:
                    chk.add_violation(f"no value reported for the constant expression `{e}`", {"oracle": "fold-complete", "expr": e, "fold": r[:100]})
    record_exec(chk, recs[:50])
    chk.rule = ("generated constant expressions (number literals, unary minus, + - * / in every alias, nested, with list operands of "
                "1-4 elements) and a catalogue of non-constant ones (variable, pronoun, subscript, call, pop, also as later factors "
                "of a zero product or later list elements; non-arithmetic operators; strings; signed zeros; non-finite results); "
                "oracles: a reported value printed by the implementation's float formatter equals what `say <expr>` prints when "
                "executed, every constant expression gets a value; and both folders' results = model")
    conclude(chk, "C17", proved)
