"""Texts for the lexer: exhaustive small strings over a critical alphabet, token soup, mutated corpus."""
import itertools, os, random, re

ALPHABET = ["a", "S", "'", "s", "r", "e", "n", '"', "(", ")", "\n", " ", "1", ".", "_", "-"]
EXTRA = ["é", "٣", "\t", "\r", ",", "&", "<", "=", ">", "x", "É", " ", "K", "²", "+", "*", "/", "!", "?"]


def exhaustive(maxlen):
    for n in range(0, maxlen + 1):
        for t in itertools.product(ALPHABET, repeat=n):
            yield "".join(t)


WORDS = ["say", "Say", "SAY", "it", "it's", "isn't", "ain't", "the", "The", "my", "heart", "Tommy", "was", "is",
         "rock'n'roll", "'n'", "o'clock", "nothing's", "we're", "WE'RE", "you'Re", "x's", "X'S", "ab1c", "_x", "x_y",
         "1", "1.5", ".5", "5.", "1e3", "1.2.3", "0x10", "٣", "٣٤", "é", "éa1", "KNOCK", "İS", "ΣΑΣ", "ǅ",
         "mysterious", "null", "<=", ">=", "<", ">", "=", "+", "-", "*", "/", ",", ".", "&", "!", "?", ";", ":", "'",
         "''", "\"a b\"", "\"multi\nline\"", "\"unterminated", "(comment)", "(multi\nline\ncomment)", "(unterminated",
         "\"s\"'s", "\"s\"'re", "(c)'s", "(c\n)'re", "5's", "5're", "1.5's", "\n", "\n\n", "\r\n", "\t", " ", "  ",
         " ", " ", " ", "\x0b", "\x0c", "\x85", "takes", "taking", "and", "into", "'s", "'re", "'S", "'RE",
         "a's", "a're", "A'Re", "a'rE", "boys'Re", "don''t", "x'''", "'x", "²", "½", "x²", "١٢٣", "１２", "Ⅷ", "€", "€5", "x€", "→", "“hello”", "🎸", "\u00a0", "\u3000", "\u2003", "\u205f", "\u1680", "日本語", "\"Crüe\nüü\" loud", "(c\n日本 🎸)'s x", "\"one\ntwo\"'s up", "(a\nb)'re rocking, now"]


def soup(rng, n):
    out = []
    for _ in range(n):
        k = rng.randint(1, 12)
        parts = []
        for _ in range(k):
            parts.append(rng.choice(WORDS))
            parts.append(rng.choice([" ", " ", " ", "", "\n", ", ", " . ", "  ", "\t", "'"]))
        out.append("".join(parts))
    return out


def corpus_programs():
    """Rockstar snippets embedded in /repo/tests (string literals that look like programs)."""
    progs = []
    d = "/repo/tests"
    if not os.path.isdir(d):
        return progs
    for f in sorted(os.listdir(d)):
        if not f.endswith(".rs"):
            continue
        text = open(os.path.join(d, f), encoding="utf-8", errors="replace").read()
        for m in re.finditer(r'r#"(.*?)"#', text, re.S):
            s = m.group(1)
            if 3 < len(s) < 1500:
                progs.append(s)
        for m in re.finditer(r'"((?:[^"\\]|\\.)*)"', text):
            s = m.group(1)
            if "\\n" in s and 8 < len(s) < 1500:
                try:
                    progs.append(s.encode("utf-8").decode("unicode_escape").encode("latin-1", "ignore").decode("utf-8", "ignore"))
                except Exception:
                    pass
    # de-duplicate, keep order
    seen, out = set(), []
    for p in progs:
        if p not in seen:
            seen.add(p)
            out.append(p)
    return out


def mutate(rng, text):
    if not text:
        return text
    ops = rng.randint(1, 3)
    chars = list(text)
    for _ in range(ops):
        i = rng.randrange(len(chars) + 1)
        c = rng.random()
        ins = rng.choice(ALPHABET + EXTRA)
        if c < 0.4 and chars:
            chars[min(i, len(chars) - 1)] = ins
        elif c < 0.7:
            chars.insert(i, ins)
        elif chars:
            del chars[min(i, len(chars) - 1)]
    return "".join(chars)

EXTRA += [" ", "€", "→", "“", "”", "🎸", "　", " ", "\x0b", "\x85", "日", "ß", "ǅ"]
WORDS += ["a'rE", "boys'Re", "€", "€5", "x€", "→", "“hello”", "🎸", " ", "　", " ", " ", " ", "日本語",
          "\"Crüe\nüü\" loud", "(c\n日本 🎸)'s x", "\"one\ntwo\"'s up", "(a\nb)'re rocking, now", "\"a\nb\"'s \"x\"\nSay\n"]


def keyword_aliases():
    """Every word that either table knows: the model's (coq/Front/Token.v) and the implementation's
    (every string literal of /repo/src/frontend/lexer.rs — a superset of its KEYWORDS table, so an alias
    added on either side is lexed by both and shows up as a LEX disagreement)."""
    words = set()
    try:
        tv = open("/verif/coq/Front/Token.v", encoding="utf-8").read()
        blk = tv[tv.index("Definition keywords"):tv.index("Local Close Scope string_scope")]
        words |= set(re.findall(r'"([^"]+)"', blk))
    except Exception:
        pass
    try:
        rs = open("/repo/src/frontend/lexer.rs", encoding="utf-8").read()
        code = re.split(r"\n(?:pub )?mod tests? *\{", rs)[0]
        words |= {w for w in re.findall(r'"((?:[^"\\]|\\.)*)"', code) if 0 < len(w) < 24 and "\\" not in w and " " not in w}
    except Exception:
        pass
    return sorted(words)


def keyword_texts():
    out = []
    for w in keyword_aliases():
        forms = {w, w.upper(), w.capitalize(), w[:1] + w[1:].upper()}
        for f in sorted(forms):
            out += [f, f"x {f} y\n", f"{f}'s", f"{f}1", f"{f}, {f}"]
    return out
