"""Texts for the lexer: exhaustive small strings over a critical alphabet, token soup, mutated corpus."""
import itertools, os, random, re

ALPHABET = ["a", "S", "'", "s", "r", "e", "n", '"', "(", ")", "\n", " ", "1", ".", "_", "-"]
EXTRA = ["é", "٣", "\t", "\r", ",", "&", "<", "=", ">", "x", "É", " ", "K", "²", "+", "*", "/", "!", "?"]


def exhaustive(maxlen):
    for n in range(0, maxlen + 1):
        for t in itertools.product(ALPHABET, repeat=n):
            yield "".join(t)


WORDS = ["say", "Say", "SAY", "it", "it's", "isn't", "ain't", "the", "The", "my", "heart", "Tommy", "was", "is",
         "rock'n'roll", "'n'", "o'clock", "nothing's", "we're", "WE'RE", "you'Re", "x's", "X'S", "ab1c", "_x", "x_y",
         "1", "1.5", ".5", "5.", "1e3", "1.2.3", "0x10", "٣", "٣٤", "é", "éa1", "KNOCK", "İS", "ΣΑΣ", "ǅ",
         "mysterious", "null", "<=", ">=", "<", ">", "=", "+", "-", "*", "/", ",", ".", "&", "!", "?", ";", ":", "'",
         "''", "\"a b\"", "\"multi\nline\"", "\"unterminated", "(comment)", "(multi\nline\ncomment)", "(unterminated",
         "\"s\"'s", "\"s\"'re", "(c)'s", "(c\n)'re", "5's", "5're", "1.5's", "\n", "\n\n", "\r\n", "\t", " ", "  ",
         " ", " ", " ", "\x0b", "\x0c", "\x85", "takes", "taking", "and", "into", "'s", "'re", "'S", "'RE",
         "a's", "a're", "A'Re", "a'rE", "boys'Re", "don''t", "x'''", "'x", "²", "½", "x²", "١٢٣", "１２", "Ⅷ", "€", "€5", "x€", "→", "“hello”", "🎸", "\u00a0", "\u3000", "\u2003", "\u205f", "\u1680", "日本語", "\"Crüe\nüü\" loud", "(c\n日本 🎸)'s x", "\"one\ntwo\"'s up", "(a\nb)'re rocking, now"]


def soup(rng, n):
    out = []
    for _ in range(n):
        k = rng.randint(1, 12)
        parts = []
        for _ in range(k):
            parts.append(rng.choice(WORDS))
            parts.append(rng.choice([" ", " ", " ", "", "\n", ", ", " . ", "  ", "\t", "'"]))
        out.append("".join(parts))
    return out


def corpus_programs():
    """Rockstar snippets embedded in /repo/tests (string literals that look like programs)."""
    progs = []
    d = "/repo/tests"
    if not os.path.isdir(d):
        return progs
    for f in sorted(os.listdir(d)):
        if not f.endswith(".rs"):
            continue
        text = open(os.path.join(d, f), encoding="utf-8", errors="replace").read()
        for m in re.finditer(r'r#"(.*?)"#', text, re.S):
            s = m.group(1)
            if 3 < len(s) < 1500:
                progs.append(s)
        for m in re.finditer(r'"((?:[^"\\]|\\.)*)"', text):
            s = m.group(1)
            if "\\n" in s and 8 < len(s) < 1500:
                try:
                    progs.append(s.encode("utf-8").decode("unicode_escape").encode("latin-1", "ignore").decode("utf-8", "ignore"))
                except Exception:
                    pass
    # de-duplicate, keep order
    seen, out = set(), []
    for p in progs:
        if p not in seen:
            seen.add(p)
            out.append(p)
    return out


def mutate(rng, text):
    if not text:
        return text
    ops = rng.randint(1, 3)
    chars = list(text)
    for _ in range(ops):
        i = rng.randrange(len(chars) + 1)
        c = rng.random()
        ins = rng.choice(ALPHABET + EXTRA)
        if c < 0.4 and chars:
            chars[min(i, len(chars) - 1)] = ins
        elif c < 0.7:
            chars.insert(i, ins)
        elif chars:
            del chars[min(i, len(chars) - 1)]
    return "".join(chars)

EXTRA += [" ", "€", "→", "“", "”", "🎸", "　", " ", "\x0b", "\x85", "日", "ß", "ǅ"]
WORDS += ["(c\n)", "\"s\n\"", "(\n)", "\"\n\n\"", "(x\n\n)'s y", "\"é\n\"'re z", "(a\né)", "\"a\n日本\"",
          "a'rE", "boys'Re", "€", "€5", "x€", "→", "“hello”", "🎸", " ", "　", " ", " ", " ", "日本語",
          "\"Crüe\nüü\" loud", "(c\n日本 🎸)'s x", "\"one\ntwo\"'s up", "(a\nb)'re rocking, now", "\"a\nb\"'s \"x\"\nSay\n"]


def keyword_aliases():
    """Every word that either table knows: the model's (coq/Front/Token.v) and the implementation's
    (every string literal of /repo/src/frontend/lexer.rs — a superset of its KEYWORDS table, so an alias
    added on either side is lexed by both and shows up as a LEX disagreement)."""
    words = set()
    try:
        tv = open("/verif/coq/Front/Token.v", encoding="utf-8").read()
        blk = tv[tv.index("Definition keywords"):tv.index("Local Close Scope string_scope")]
        words |= set(re.findall(r'"([^"]+)"', blk))
    except Exception:
        pass
    try:
        rs = open("/repo/src/frontend/lexer.rs", encoding="utf-8").read()
        code = re.split(r"\n(?:pub )?mod tests? *\{", rs)[0]
        words |= {w for w in re.findall(r'"((?:[^"\\]|\\.)*)"', code) if 0 < len(w) < 24 and "\\" not in w and " " not in w}
    except Exception:
        pass
    return sorted(words)


def keyword_texts():
    out = []
    for w in keyword_aliases():
        forms = {w, w.upper(), w.capitalize(), w[:1] + w[1:].upper()}
        for f in sorted(forms):
            out += [f, f"x {f} y\n", f"{f}'s", f"{f}1", f"{f}, {f}"]
    # the contraction suffixes in every letter case, after every kind of host
    for sfx in ("'s", "'S", "'re", "'RE", "'Re", "'rE", "'sx", "'res", "'r", "''s", "'s's"):
        for host in ("we", "We", "WE", "boys", "Élan", "it", "nothing", "5", "1.5", "\"s\"", "(c)", "my", "x'", "rock'n'roll"):
            out += [f"{host}{sfx}", f"{host}{sfx} 1\nsay {host}\n"]
    return out


def scale_texts():
    """Unusually long or oddly placed inputs: long words/numbers/strings/comments, many tokens and lines, multi-byte
    characters at the ends of the source and around token boundaries, special case mappings."""
    t = []
    t.append("x" * 300 + " is 5\nsay " + "x" * 300 + "\n")
    t.append("X" + "y" * 255 + " " + "Z" + "w" * 256 + " is 1\n")
    t.append("say " + "7" * 50 + "\n")
    t.append("say " + "9" * 400 + "\n")
    t.append("say 0." + "3" * 80 + "\n")
    t.append("say 1" + "0" * 308 + "\nsay 1" + "0" * 309 + "\n")
    t.append('say "' + "lorem ipsum " * 300 + '"\n')
    t.append('say "' + "é🎸" * 500 + '"\n')
    t.append("(" + "comment line\n" * 400 + ") say 1\n")
    t.append('say "' + "line\n" * 300 + '"' + "'s x\nsay 2\n")
    t.append("say 1" + " + 1" * 1000 + "\n")
    t.append("\n" * 600 + "say 1\n" + "\n" * 600)
    t.append("say 1\n" * 800)
    t.append("rock the list with " + ", ".join(str(i) for i in range(400)) + "\n")
    t.append("say 1, " * 300 + "2\n")
    t.append("Tommy was " + "a rockstar " * 200 + "\n")
    t.append("Tommy says " + "hello world " * 400 + "\n")
    t.append("é")
    t.append("say é")
    t.append("🎸")
    t.append("say 1 🎸")
    t.append("é is 1\nsay É\n")
    t.append("İstanbul is 1\nsay i̇stanbul\nsay İSTANBUL\n")
    t.append("Straße is 2\nsay STRASSE\nsay straße\n")
    t.append("ΣΑΣ is 3\nsay σας\nsay σασ\n")
    t.append("ǅemal is 4\nsay ǆemal\nsay Ǆemal\n")
    t.append("say 1 say 2 say 3\n")
    t.append("say 1　+ 2\n")
    t.append("x" * 1023 + " is 1\n" + "y" * 1024 + " is 2\n" + "z" * 1025 + " is 3\n")
    t.append('say "' + "a" * 4095 + '"\nsay "' + "b" * 4096 + '"\nsay "' + "c" * 4097 + '"\n')
    t.append("'" * 300 + "x" + "'" * 300 + "\n")
    t.append("say " + "not " * 150 + "true\n")
    t.append("if 1\n" * 60 + "say 1\n" + "\n" * 61 + "say 2\n")
    return t
