"""C10 — same program and input give the same output, result and messages every time."""
import subprocess, os, tempfile
from . import execsuite, suite
from .propbase import *


def dict_programs(rng, n):
    keys = ['"alpha"', '"bravo"', '"charlie"', '"delta"', '"echo"', '"foxtrot"', "true", "false", "null", "mysterious", '"z"', '"m"', '"t"']
    out = []
    for _ in range(n):
        ks = rng.sample(keys, rng.randint(2, 7))
        lines = []
        vals_kind = rng.choice(["str", "num", "mixed"])
        for j, k in enumerate(ks):
            v = {"str": f'"{chr(97 + j)}{j}"', "num": str(j + 1), "mixed": rng.choice([str(j + 1), f'"s{j}"', "null", "mysterious", "true"])}[vals_kind]
            lines.append(f"let the shelf at {k} be {v}")
        ks2 = list(ks)
        rng.shuffle(ks2)
        for j, k in enumerate(ks2):
            idx = ks.index(k)
            v = {"str": f'"{chr(97 + idx)}{idx}"', "num": str(idx + 1), "mixed": "7"}[vals_kind]
            lines.append(f"let your shelf at {k} be {v}")
        tail = rng.sample([
            "say \"built\"", "join the shelf", "join the shelf with \",\"", "say the shelf", "say the shelf is your shelf", "say the shelf aint your shelf",
            "if the shelf is your shelf\nsay \"same\"\n", "say the shelf at \"alpha\"", "cut the shelf", "say the shelf plus \"x\"", "rock the shelf with your shelf",
            "put the shelf into copy\nsay copy is the shelf", "say the shelf is greater than your shelf", "cast the shelf", "turn up the shelf",
            "join your shelf into joined\nsay joined", "say the shelf at your shelf"], rng.randint(3, 7))
        out.append("\n".join(lines + tail + ["say \"end\""]) + "\n")
    return out


def big_dict_errors():
    keys = ["alpha", "bravo", "charlie", "delta", "echo", "foxtrot", "golf", "hotel", "india", "juliet", "kilo", "lima"]
    out = []
    for n in (2, 8, 9, 12):
        build = "".join(f"let the book at \"{k}\" be {i + 1}\n" for i, k in enumerate(keys[:n])) + "let the book at null be 0\nlet the book at true be 13\n"
        for err in ("turn up the book", "say the book is greater than true", "cut the book", "cast the book", "say the book at the book", "let X at the book be 1",
                    "join the book", "say 1 over the book is less than the book", "say not the book"):
            out.append(build + "say \"built\"\n" + err + "\nsay \"after\"\n")
    return out


def run(chk):
    proved = setup(chk, "C10")
    C.build_rrss_bin()
    rng = rng_for(chk, 10)
    quick = chk.tier == "quick"
    progs = dict_programs(rng, 120 if quick else 1200)
    gen = exec_cases(chk, 80 if quick else 800, focus={"array": 6, "mutation": 3}, salt=110)
    progs += [g["src"] for g in gen] + [c["src"] for c in corpus_cases("exec")] + big_dict_errors()
    cases = [{"src": p, "stdin": "x\ny\n"} for p in progs]
    recs = execsuite.run(chk, cases, "run1", suite_name="EXEC-dict")
    # repeated executions: in the same process (each HashMap gets a new RandomState) and in fresh processes
    reps = 6 if quick else 20
    lines = []
    for i, p in enumerate(progs):
        for k in range(reps):
            lines.append(f"(exec d{i}_{k} run {C.hx(p)} {C.hx('x' + chr(10) + 'y' + chr(10))} none none)")
            if k < 2:
                lines.append(f"(ana l{i}_{k} lint {C.hx(p)})")
                lines.append(f"(exec p{i}_{k} parse {C.hx(p)})")
    runs = []
    for rep in range(2 if quick else 4):
        res, _ = C.run_cases({"debug": lines, "release": lines}, f"C10_rep{rep}", shards=4, confirm=False)   # runs cut off by the limit are discarded below
        runs.append(res)
    bad = 0
    for i, p in enumerate(progs):
        seen = {}
        for rep, res in enumerate(runs):
            for side in ("debug", "release"):
                for k in range(reps):
                    seen.setdefault(("run", side), set()).add(res[side].get(f"d{i}_{k}", ""))
                for k in range(2):
                    seen.setdefault(("lint", side), set()).add(res[side].get(f"l{i}_{k}", ""))
                    seen.setdefault(("parse", side), set()).add(res[side].get(f"p{i}_{k}", ""))
        for (what, side), vals in seen.items():
            vals = {v for v in vals if not v.startswith("timeout")}      # a run cut off by the time limit is not a result
            if len(vals) > 1:
                bad += 1
                if bad <= 4:
                    chk.add_violation(f"{what} is not deterministic: {len(vals)} different results for one program and input",
                                      {"oracle": "repeat-executions", "profile": side, "what": what, "src": p, "stdin": "x\ny\n",
                                       "results": [C.decode_hex_fields(v)[:300] for v in sorted(vals)][:4]})
        chk.distinct.add(hash(p) % 1000003)
    chk.evals += len(lines) * len(runs)
    # the real binary, fresh process each time
    work = f"{C.BUILD}/work/C10_cli"
    os.makedirs(work, exist_ok=True)
    nb = 0
    for i, p in enumerate(progs[: (25 if quick else 200)]):
        path = f"{work}/p{i}.rock"
        open(path, "w", encoding="utf-8").write(p)
        outs = set()
        for k in range(4 if quick else 10):
            pr = subprocess.run([C.RRSS_BIN_RELEASE, "exec", path], input=b"x\ny\n", stdout=subprocess.PIPE, stderr=subprocess.PIPE, env=dict(C.ENV, NO_COLOR="1"), timeout=20)
            outs.add((pr.returncode, pr.stdout, pr.stderr))
        chk.evals += 4
        if len(outs) > 1:
            nb += 1
            if nb <= 2:
                chk.add_violation("rrss exec gives different results in different processes",
                                  {"oracle": "repeat-processes", "src": p, "results": [(a, b.decode("utf-8", "replace")[:200], c.decode("utf-8", "replace")[:200]) for a, b, c in outs]})
    record_exec(chk, recs)
    chk.rule = ("programs that build dictionaries with 2-7 non-numeric keys in two insertion orders, then join / print / compare / "
                "copy / error on them (+ generated array programs): each executed repeatedly in one process (every HashMap gets a "
                "fresh RandomState) and in several fresh processes, debug and release, plus the rrss binary in fresh processes; "
                "parse and lint repeated as well; all results for one (program,input) must be byte-identical; and model = "
                "implementation on output and outcome (the model has no hash order at all)")
    conclude(chk, "C10", proved)
