"""C07 — split, join, cast and rounding."""
from . import suite, execsuite, values
from .propbase import *
from . import basesuites


def run(chk):
    proved = setup(chk, "C07")
    basesuites.run_f64(chk, 1500 if chk.tier == "quick" else 20000)
    rng = rng_for(chk, 7)
    quick = chk.tier == "quick"
    U = values.universe(small=False)
    strs = [v for v in U if values.kind(v) == "string"]
    params = ["none"] + [f"(some {v})" for v in
                         [values.s(","), values.s(""), values.s("X"), values.s("XX"), values.s("é"), values.U, values.num(1.0), values.arr()]]
    radices = ["none"] + [f"(some {values.num(x)})" for x in
                          [2.0, 10.0, 16.0, 36.0, 37.0, 1.0, 0.0, -2.0, 2.5, float("nan"), float("inf"), 4294967296.0, 4294967298.0, -4294967280.0, 1e30]] \
        + [f"(some {values.s('16')})", "(some n)"]
    lines = []
    for i, v in enumerate(U):
        for j, p in enumerate(params):
            lines.append(f"(val sp{i}_{j} split {v} {p})")
            lines.append(f"(val jo{i}_{j} join {v} {p})")
        for j, p in enumerate(radices):
            lines.append(f"(val ca{i}_{j} cast {v} {p})")
        for op in ("round_up", "round_down", "round_nearest"):
            lines.append(f"(val r{op[6]}{i} {op} {v})")
    extra_nums = [0.5, -0.5, 1.5, 2.5, -2.5, 0.49999999999999994, 4503599627370495.5, 4503599627370497.0, 1e300, -1e-300, 5e-324,
                  65.0, 233.0, 128512.0, 1114111.0, 1114112.0, 55295.0, 55296.0, 57343.0, 57344.0, -1.0, 4294967361.0, -4294967231.0, 65.5]
    for j, x in enumerate(extra_nums):
        for op in ("round_up", "round_down", "round_nearest"):
            lines.append(f"(val x{op[6]}{j} {op} {values.num(x)})")
        lines.append(f"(val xc{j} cast {values.num(x)} none)")
    for j, t in enumerate(["aXbXXc", "XaX", "XXX", "", "X", "aaa", "é,ü,", ",,", "abab"]):
        for k, d in enumerate(["X", "XX", "a", "aa", "ab", ",", "é", "aXbXXc"]):
            lines.append(f"(val ss{j}_{k} split {values.s(t)} (some {values.s(d)}))")
    for j, t in enumerate(["ff", "FF", "-ff", "+10", "z", "Zz", " 1", "1 ", "", "-", "+", "9223372036854775807", "9223372036854775808",
                           "-9223372036854775808", "-9223372036854775809", "1_0", "0x10", "१२", "1e3", "1.0", ".5", "5.", "inf", "-inF", "nan", "NaN", "infinity",
                           "1e400", "1e-400", "0.1e1", "1E5", "1e+5", "1e", "e5", "+.5e-3", "--1", "１"]):
        lines.append(f"(val cn{j} cast {values.s(t)} none)")
        for r in (2.0, 10.0, 16.0, 36.0):
            lines.append(f"(val cr{j}_{int(r)} cast {values.s(t)} (some {values.num(r)}))")
    for i, v in enumerate(values.LONGS):
        for j, p in enumerate(params):
            lines.append(f"(val Lsp{i}_{j} split {v} {p})")
            lines.append(f"(val Ljo{i}_{j} join {v} {p})")
        for j, p in enumerate(radices[:6]):
            lines.append(f"(val Lca{i}_{j} cast {v} {p})")
        for op in ("round_up", "round_down", "round_nearest"):
            lines.append(f"(val Lr{op[6]}{i} {op} {v})")
    res, _ = suite.compare(chk, lines, "val", suite_name="VAL-mutations")
    for l in lines:
        cid = C.case_id(l)
        r = res["debug"].get(cid, "")
        chk.distinct.add((cid[:2], " ".join(r.split(" ")[:2]) if r.startswith("err") else r[:50]))
    # statement level: with/without `into`, on variables, subscripts and pronouns
    ops = [("cut", "\"a,b,c\"", ' with ","'), ("cut", "\"héllo\"", ""), ("join", None, ' with "-"'), ("cast", "\"ff\"", " with 16"),
           ("cast", "\"12.5\"", ""), ("cast", "65", ""), ("cast", "\"zz\"", " with 1"), ("cast", "4294967361", ""), ("cut", "5", "")]
    cases = []
    for (op, lit, wth) in ops:
        init = [f"put {lit} into X"] if lit else ["rock X with \"a\", \"b\"", "let X at \"k\" be \"c\""]
        cases.append({"src": "\n".join(init + [f"{op} X{wth}", "say X"]) + "\n", "meta": op + " in place"})
        cases.append({"src": "\n".join(init + [f"{op} X into Y{wth}", "say X", "say Y"]) + "\n", "meta": op + " into"})
        cases.append({"src": "\n".join(init + ["rock Apex with 0", "let Apex at 1 be X", f"{op} Apex at 1{wth}", "say Apex at 1", "say X"]) + "\n", "meta": op + " subscript"})
        cases.append({"src": "\n".join(init + ["rock Apex with 0", f"{op} X into Apex at 2{wth}", "say Apex at 2", "say Apex", "say X"]) + "\n", "meta": op + " into subscript"})
        cases.append({"src": "\n".join(init + [f"{op} it{wth}", "say X", "say it"]) + "\n", "meta": op + " pronoun"})
        cases.append({"src": "\n".join(init + [f"{op} X into it{wth}", "say X"]) + "\n", "meta": op + " into pronoun"})
    for d in ("up", "down", "round", "around"):
        for v in ("2.5", "-2.5", "0.4", "-0.4", "\"s\"", "null", "1e300"):
            cases.append({"src": f"put {v} into X\nturn {d} X\nsay X\nturn it {d}\nsay X\n", "meta": "turn"})
            cases.append({"src": f"rock Apex with {v}, 7.25\nrock Idx with 0, 1\nturn Apex at roll Idx {d}\nsay Apex at 0\nsay Apex at 1\nsay Idx\n", "meta": "turn subscript with effect"})
    # the order in which operand, destination and parameter are evaluated is observable: through the pronoun (each
    # named variable moves it), through callees that print or change variables, through which error comes first
    loud = "Loud takes V\nsay V\ngive back V\n\nSwap takes V\nput \"changed\" into Glob\ngive back V\n\nput \"g-l-o\" into Glob\n"
    for op, opd, par in (("cut", '"a-b-c"', '"-"'), ("split", '"a b c"', '" "'), ("join", None, '"+"'), ("unite", None, '""'), ("cast", '"ff"', "16"), ("burn", '"101"', "2")):
        init2 = ["rock Arr with \"x\", \"y\"" if opd is None else f"let Src be {opd}", f"let Par be {par}"]
        src_name = "Arr" if opd is None else "Src"
        for stmt in (f"{op} it into R with Par", f"{op} {src_name} into R with it", f"{op} it with Par", f"{op} {src_name} with it",
                     f"{op} Loud taking {src_name} into R with Loud taking Par", f"{op} {src_name} into R with Swap taking Par",
                     f"{op} Glob into R with Swap taking Par", f"{op} Swap taking Glob into Glob with Par", f"{op} Missing into R with Nope",
                     f"{op} {src_name} into Arr at Loud taking 1 with Loud taking Par", f"{op} Missing with Loud taking Par",
                     f"{op} {src_name} into R with Loud taking Nope", f"{op} Loud taking Nope into R with Loud taking Par"):
            for last in (f"say {src_name}", "say Par"):
                cases.append({"src": loud + "\n".join(init2 + [last, stmt, "say R", f"say {src_name}", "say Glob", "say it"]) + "\n", "meta": "mutation evaluation order"})
    cases += [{"src": c["src"], "meta": c.get("note")} for c in corpus_cases("exec")]
    recs = execsuite.run(chk, cases, "stmt", suite_name="EXEC-mutations")
    record_exec(chk, recs, sig=lambda r: (r["case"].get("meta"), r["impl"].get("debug", "")[:80]))
    gen = exec_cases(chk, 200 if quick else 2000, focus={"mutation": 8, "array": 3}, salt=77)
    recs2 = execsuite.run(chk, gen, "gen", suite_name="EXEC-gen")
    record_exec(chk, recs2)
    chk.rule = ("VAL: split/join on all of U x delimiter kinds, cast on U x radices (valid, 1, 37, 0, negative, fractional, NaN, inf, "
                ">= 2^32) and numeric-text edge cases, rounding on U and on half-way/huge/tiny numbers, code points around the "
                "surrogate and 0x10FFFF boundaries and beyond 2^32; EXEC: every mutation with/without `into` on a variable, a "
                "subscript, a pronoun, and rounding through a subscript whose index has a side effect")
    conclude(chk, "C07", proved)
