"""C20 — the command-line tool behaves exactly like the library on the same file."""
import os, re, subprocess
from . import execsuite, gen_prog
from .propbase import *


def run_cli(args, stdin=b"", timeout=20):
    try:
        p = subprocess.run([C.RRSS_BIN_DEBUG] + args, input=stdin, stdout=subprocess.PIPE, stderr=subprocess.PIPE,
                           env=dict(os.environ, NO_COLOR="1"), timeout=timeout)
    except subprocess.TimeoutExpired:
        return None, b"", b"<timeout>"
    return p.returncode, p.stdout, p.stderr


def run(chk):
    proved = setup(chk, "C20")
    C.build_rrss_bin()
    rng = rng_for(chk, 20)
    quick = chk.tier == "quick"
    gen = exec_cases(chk, 60 if quick else 600, focus={"say": 8, "listen": 3}, salt=200)
    ill = exec_cases(chk, 30 if quick else 300, illtyped=True, salt=201)
    fixed = ["say 1\nsay 2\nsay x\nsay 3\n", "say 1\nsay\n", "say \"only\"", "", "\n\n", "listen to x\nsay x\nlisten to y\nsay y\nsay \"done\"\n",
             "X is 5\nPut X times X times X into Y\nSay Y\n", "put 5 into x\n", "put -5 into x\nput \"a\nb\" into y\n", "say \"ünï\"\n", "else\n",
             "Say \"one\r\ntwo\"\r\n", "Tommy says hello\r\nShout Tommy plus \"!\"\r\n", "say 1\r\nsay 2\r\n", "say 1\rsay 2\r", "X is 5\r\nif X\r\nsay X\r\n\r\nsay 0\r\n",
             "\ufeffsay 1\n", "say \"tab\there\"\n", "say 1\n\n\n\n", "  say 1  \n", "say \"a\r\"\n", "Tommy says trailing  \nsay Tommy\n"]
    cases = [{"src": s, "stdin": "line one\nline two\n"} for s in fixed] + gen + ill
    stdin_variants = ["", "a\nb\n", "no newline", "ünï\n"]
    work = f"{C.BUILD}/work/C20"
    os.makedirs(work, exist_ok=True)
    # library side through the harness
    recs = execsuite.run(chk, cases, "lib", suite_name="EXEC-library")
    lint_lines = [f"(ana l{i} lint {C.hx(c['src'])})" for i, c in enumerate(cases)]
    lres, _ = C.run_cases({"debug": lint_lines}, "C20_lint")
    bad = 0

    def report(msg, rep):
        nonlocal bad
        bad += 1
        if bad <= 5:
            chk.add_violation("CLI differs from the library: " + msg, dict(rep, oracle="cli-vs-library"))
    for i, c in enumerate(cases):
        path = f"{work}/p{i}.rock"
        open(path, "w", encoding="utf-8", newline="").write(c["src"])      # newline="": the bytes of the program, untranslated
        lib = recs[i]["impl"].get("debug", "")
        if lib in ("timeout", "crash") or recs[i].get("discarded"):
            continue          # outside the step/size budget: not compared
        for sv in ([c.get("stdin", "")] + (stdin_variants[:1] if quick else stdin_variants)):
            if sv != c.get("stdin", ""):
                continue
            rc, out, err = run_cli(["exec", path], sv.encode("utf-8"))
            chk.evals += 1
            if rc is None:
                report("rrss exec did not terminate although the library run did", {"src": c["src"], "stdin": sv})
                continue
            st, o = execsuite.split_out(lib)
            if lib.startswith("parse-error"):
                msg = C.unhex(lib.split(" ")[1])
                if out != b"" or err.decode("utf-8", "replace") != f"Parse error: {msg}\n":
                    report("parse error not routed to stderr with its prefix", {"src": c["src"], "stdout": out.decode("utf-8", "replace")[:200], "stderr": err.decode("utf-8", "replace")[:300], "library": msg})
            elif o is not None:
                if out != bytes.fromhex(o):
                    report("stdout differs from what the library interpreter wrote", {"src": c["src"], "stdin": sv, "cli_stdout": out.decode("utf-8", "replace")[:300], "library_stdout": bytes.fromhex(o).decode("utf-8", "replace")[:300]})
                if st == "ok" and err != b"":
                    report("stderr not empty on success", {"src": c["src"], "stderr": err.decode("utf-8", "replace")[:200]})
                if st.startswith("err"):
                    msg = C.unhex(st.split(" ")[2])
                    if err.decode("utf-8", "replace") != f"Runtime error: {msg}\n":
                        report("runtime error not on stderr with its prefix", {"src": c["src"], "stderr": err.decode("utf-8", "replace")[:300], "library": msg})
            chk.distinct.add((hash(c["src"]) % 1000003, rc, len(out), len(err)))
        # lint
        rc, out, err = run_cli(["lint", path])
        chk.evals += 1
        lr = lres["debug"].get(f"l{i}", "")
        if lr.startswith("ok"):
            want = "".join(f"Lint issue: (line {m.group(1)}) {C.unhex(m.group(2))}" + "".join("\n\t" + C.unhex(x) for x in m.group(3).split()) + "\n"
                           for m in re.finditer(r"\(diag (\d+) (#[0-9a-f]*)((?: #[0-9a-f]*)*) ?\)", lr))
            if want == "":
                want = "No lint issues found :)"
            if out.decode("utf-8", "replace") != want or err != b"":
                report("lint output differs from the library's diagnostics", {"src": c["src"], "cli": out.decode("utf-8", "replace")[:400], "library": want[:400]})
        elif lr.startswith("parse-error") and not err.decode("utf-8", "replace").startswith("Parse error: "):
            report("lint: parse error not reported on stderr", {"src": c["src"], "stderr": err.decode("utf-8", "replace")[:200]})
        # parse: the tree printed is the library's tree; the harness prints the same Debug rendering
        rc, out, err = run_cli(["parse", path])
        chk.evals += 1
        if lib.startswith("parse-error"):
            if out != b"" or not err.decode("utf-8", "replace").startswith("Parse error: Parse error (line "):
                report("parse: error not on stderr", {"src": c["src"], "stdout": out[:100].decode("utf-8", "replace"), "stderr": err.decode("utf-8", "replace")[:200]})
        elif not out.decode("utf-8", "replace").startswith("Program {") or err != b"":
            report("parse: tree not printed on stdout", {"src": c["src"], "stdout": out[:100].decode("utf-8", "replace")})
    # input that is not valid UTF-8: the CLI must behave like the library (an I/O error at the listen that reaches it)
    prog = "Listen to X\nSay X\nListen to Y\nSay Y\nSay \"done\"\n"
    path = f"{work}/utf8.rock"
    open(path, "w").write(prog)
    for raw in (b"hello\n\xff\xfe\n", b"\xc3\n", b"ok\nfine\n\xff", b"\xf0\x9f\x8e\n"):
        line = f"(exec u runbytes {C.hx(prog)} #{raw.hex()} none none)"
        r, _ = C.run_cases({"debug": [line]}, "C20_utf8")
        st, o = execsuite.split_out(r["debug"]["u"])
        rc, out, err = run_cli(["exec", path], raw)
        chk.evals += 1
        if o is not None and out != bytes.fromhex(o):
            report("stdout differs from the library on input that is not valid UTF-8", {"src": prog, "stdin_hex": raw.hex(), "cli_stdout": out.decode("utf-8", "replace"), "library_stdout": bytes.fromhex(o).decode("utf-8", "replace")})
        if st.startswith("err") != (err != b""):
            report("error reporting differs from the library on input that is not valid UTF-8", {"src": prog, "stdin_hex": raw.hex(), "cli_stderr": err.decode("utf-8", "replace"), "library": C.decode_hex_fields(st)})
    # usage errors and missing files
    for args in (["exec", f"{work}/does-not-exist.rock"], ["lint", f"{work}/nope"], ["parse", f"{work}/nope"], ["exec"], ["frobnicate", "x"], ["exec", "a", "b"], ["--nope"]):
        rc, out, err = run_cli(args)
        chk.evals += 1
        if rc == 0:
            report(f"`rrss {' '.join(args)}` exits 0", {"args": args, "stdout": out.decode("utf-8", "replace")[:100], "stderr": err.decode("utf-8", "replace")[:200]})
    rc, out, err = run_cli([])
    if rc == 0 and out == b"" and err == b"":
        for f in C.load_known_findings().get("findings", []):
            if f["id"] == "F13":
                chk.known.append(f"F13: {f['what']}")
                break
        else:
            report("bare `rrss` exits 0 silently", {"args": []})
    record_exec(chk, recs[:30])
    chk.rule = ("fixed programs (runtime error after output, parse error, no trailing newline, empty file, listen) and generated "
                "well-typed / ill-typed programs written to files; `rrss exec|lint|parse FILE` run as a real process (pipes, "
                "NO_COLOR=1) and compared with the library called through the harness on the same text and stdin: stdout bytes, "
                "stderr text with its `Parse error: ` / `Runtime error: ` prefix, lint rendering; missing files and bad usage "
                "must exit non-zero; the library side itself = model (suites EXEC, LINT)")
    conclude(chk, "C20", proved)
