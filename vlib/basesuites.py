"""Suites that tie the model's data and numeric ports to Rust's std: UNI (every code point) and F64."""
import random, struct
from . import common as C
from . import suite
from .values import fbits


def run_uni(chk):
    """The model's Unicode data = Rust's char methods on ALL code points: the complete range tables of the
    five class predicates and the complete lower-casing map are compared as data (exhaustive), and the
    lookup functions are exercised on every range boundary +-1 and on random code points."""
    lines = ["(uni tables tables)"]
    rng = random.Random(C.seed() + 7)
    pts = set(rng.randrange(0, 0x110000) for _ in range(3000))
    tabs = open(f"{C.COQ}/Base/UnicodeTables.v").read()
    import re
    for m in re.finditer(r"\((\d+), (\d+)\)", tabs):
        for v in (int(m.group(1)), int(m.group(2))):
            pts.update(x for x in (v - 1, v, v + 1) if 0 <= x < 0x110000)
    pts = sorted(p for p in pts if not (0xD800 <= p <= 0xDFFF))
    for i in range(0, len(pts), 400):
        lines.append(f"(uni p{i} points " + " ".join(str(p) for p in pts[i:i + 400]) + ")")
    res, _ = suite.compare(chk, lines, "uni", project=lambda x: x, suite_name="UNI", sides=("model", "debug"))
    chk.suites["UNI"]["code_points_compared_as_tables"] = 0x110000 - 0x800
    chk.suites["UNI"]["lookup_points"] = len(pts)
    chk.suites["UNI"]["exhaustive"] = True


HARD_DECIMALS = ["0.1", "1e23", "5e-324", "2.4703282292062327e-324", "2.4703282292062328e-324", "1.7976931348623157e308",
                 "1.7976931348623159e308", "9007199254740993", "0.30000000000000004", "123456789012345678", "1e400", "1e-400",
                 "0.000000000000000000000000000000000000000000001", "8.98846567431158e307", "4.9406564584124654e-324",
                 "2.2250738585072011e-308", "2.2250738585072014e-308", "1.00000000000000011102230246251565404236316680908203125",
                 "1.00000000000000011102230246251565404236316680908203124", "1.00000000000000011102230246251565404236316680908203126",
                 "9007199254740992.5", "9007199254740993.5", "0.5", ".5", "5.", "1e5", "1E5", "1e+5", "1e-5", "-0", "+0", "-0.0", "00001", "1_0",
                 "inf", "-inf", "+inf", "Infinity", "-INFINITY", "nan", "NaN", "-nan", "infinit", "in", "", "+", "-", ".", "e5", "1e", "1e+", "1.5.2",
                 " 1", "1 ", "0x10", "1f", "١", "1e99999999999999999999", "1e-99999999999999999999", "0e99999999999999999999",
                 "123456789012345678901234567890", "0.000001e6", "1" + "0" * 400, "0." + "0" * 400 + "1", "1" * 50 + "e-30"]


def run_f64(chk, n=4000):
    rng = random.Random(C.seed() + 64)
    lines = []
    bitsets = []
    for _ in range(n):
        b = rng.getrandbits(64)
        bitsets.append(b)
    for e in range(0, 2047, 5):
        for m in (0, 1, (1 << 52) - 1, 1 << 51):
            bitsets.append((e << 52) | m)
            bitsets.append((1 << 63) | (e << 52) | m)
    # exact ties of the shortest-digits algorithm, integers around 2^53, powers of ten
    for x in [1113178120592002.25, 2 ** 53 - 1.0, 2 ** 53 + 2.0, 1e21, 1e22, 1e23, 1e-7, 123456.789, 5e-324, 1.7976931348623157e308, 0.3, 2.5, 100.0, 1 / 3, 65536.0, 4294967296.0]:
        bitsets.append(struct.unpack("<Q", struct.pack("<d", x))[0])
    for i, b in enumerate(bitsets):
        h = "%016x" % b
        lines.append(f"(f64 d{i} display {h})")
        b2 = bitsets[(i * 7 + 3) % len(bitsets)]
        lines.append(f"(f64 a{i} arith {h} {'%016x' % b2})")
    for i, t in enumerate(HARD_DECIMALS):
        lines.append(f"(f64 p{i} parse {C.hx(t)})")
    for i in range(n // 2):
        digs = "".join(rng.choice("0123456789") for _ in range(rng.randint(1, 25)))
        t = rng.choice(["", "-", "+"]) + digs
        if rng.random() < 0.6:
            k = rng.randint(0, len(digs))
            t = rng.choice(["", "-"]) + digs[:k] + "." + digs[k:]
        if rng.random() < 0.4:
            t += rng.choice(["e", "E"]) + rng.choice(["", "-", "+"]) + str(rng.randint(0, 340))
        lines.append(f"(f64 q{i} parse {C.hx(t)})")
    for i, t in enumerate(["ff", "FF", "-ff", "+10", "z", "Zz", " 1", "", "-", "+", "9223372036854775807", "9223372036854775808",
                           "-9223372036854775808", "-9223372036854775809", "1_0", "१२", "10", "00", "-0"]):
        for r in (2, 8, 10, 16, 36):
            lines.append(f"(f64 r{i}_{r} radix {C.hx(t)} {r})")
    for i, e in enumerate(list(range(-330, 330, 7)) + [0, 1, -1, 22, 23, -22, -23, 308, 309, -323, -324, -325]):
        lines.append(f"(f64 w{i} powi 4024000000000000 {e})")
    res, _ = suite.compare(chk, lines, "f64", project=lambda x: x, suite_name="F64", sides=("model", "debug", "release"))


def run_kw(chk):
    """KW: every alias known to either keyword table (model's Token.v, every string literal of lexer.rs),
    in four letter cases and five contexts, lexed by both sides."""
    from . import gen_lex
    texts = gen_lex.keyword_texts()
    lines = [f"(lex k{i} tokens {C.hx(t)})" for i, t in enumerate(texts)]
    suite.compare(chk, lines, "lex", project=lambda x: x, suite_name="KW")
    chk.count("kw_aliases", len(gen_lex.keyword_aliases()))
