"""C13 — syntax errors are rejected and attributed to the line they occur on."""
import re
from . import suite, gen_prog
from .propbase import *

# context-independent faulty lines (each cannot be a statement, whatever precedes or follows on other lines)
FAULTS = [
    "put 1 into", "put into X", "put 1 X", "let X be", "let X", "let be 5", "build X", "knock X", "build up", "knock X up",
    "say", "say 1 +", "say 1 *", "say 1 minus", "say 1 and", "say 1 is", "say 1 is greater", "say 1 is as big", "say 1 is as big 2",
    "say 1 say 2", "put 1 into X put 2 into Y", "X is", "X is ", "X's", "turn X", "turn", "rock", "roll", "listen to", "if", "while", "until",
    "1", "1 + 2", "\"str\"", ", 5", ". x", "and 1", "up", "into X", "_bad is 1", "ab1c is 2", "my", "the", "X at is 5", "X says", "X saysno",
    "cut", "cut 5", "join \"a\"", "cast F taking 1", "give", "give back", "return", "X takes", "X takes 5", "it takes X", "X taking", "it taking 1",
    "take it to", "take it to the", "break it", "\"unterminated", "say \"unterminated", "say (unterminated", "rock X with", "rock X like",
    "X is a-", "X is -a", "say X at", "say X at at 1", "say roll", "let X at be 1", "build it", "knock the walls,", "say 1 , , 2",
    "say 1 nor", "say not", "say -", "say 1 over", "F takes X and", "F taking 1,", "F taking 1 &", "put 1 into X at", "listen to 5", "turn up",
    # invalid identifiers with non-ASCII letters, digits and other numerics, at statement start and as operands
    "mētäl2 is 5", "ÿ2k says hi", "put 1 into café1", "naïve² is 4", "x² is 1", "é1", "say é1", "É9 takes X", "build ü3 up", "日本1 is 2",
    "x٣ is 1", "ab½ is 1", "put é_é into X", "Ünï1 Cörn is 3",
    # mutation operands that are not identifiers (each kind the error message names), and expected-token lists of every length
    "cut roll X", "join X at 1", "cast \"s\"", "cut F taking 1, 2", "shatter roll roll X", "unite 5 with 2",
    "X 5", "X 'n' 5", "X & Y", "the heart 5", "Tom Sawyer 5", "it 5", "X at 1 5", "turn X sideways", "F takes X 'n'", "F taking 1 'n'",
    "break him down", "break he down", "break them down", "break IT up", "take him to the top", "take it to a top", "take it to my top", "take they to the top",
    "take it to the", "break it down down", "take it to the top top", "continue it", "break it him",
    "say 1 is as", "say 1 is as 5 as 2", "say 1 is bigger", "say 1 is bigger 2", "knock X down up", "build X up down",
]


def run(chk):
    proved = setup(chk, "C13")
    rng = rng_for(chk, 13)
    quick = chk.tier == "quick"
    progs, _ = gen_prog.gen_programs(rng.randrange(10 ** 9), 250 if quick else 2500, focus={"listen": 0.2}, extras=False)
    # keep programs the implementation accepts
    lines = [f"(exec v{i} parse {C.hx(p)})" for i, p in enumerate(progs)]
    res, _ = C.run_cases({"debug": lines}, "C13_valid")
    valid = [p for i, p in enumerate(progs) if res["debug"][f"v{i}"].startswith("ok ")]
    cases = []
    PRELUDES = ["", "", "say \"one\ntwo\"'s \"x\"\n", "say \"a\nb\nc\"'re \"x\"\n", "(a comment\nover two lines)\nsay 1\n",
                "say 1 (trailing\ncomment)'s 2\n", "say \"multi\nline\"\n", "X says \"quoted\" (closed)\n",
                # multi-line tokens whose body ends with a line break (the closing delimiter starts a line), or is nothing but line breaks
                "(a comment\n)\nsay 1\n", "say \"text\n\"\n", "(\n\n)\nsay 1\n", "say \"\n\"\n", "(x\n\n) say 1\n", "say \"a\n\n\"'s \"b\"\n",
                "(\n) (\n)\nsay 1\n", "say \"\n\n\n\"\n"]
    for p in valid:
        pre = rng.choice(PRELUDES)
        npre = pre.count("\n")
        ls = (pre + p).split("\n")
        for _ in range(2 if quick else 6):
            fault = FAULTS[len(cases) % len(FAULTS)] if len(cases) < 3 * len(FAULTS) else rng.choice(FAULTS)   # every fault at least a few times
            # positions: between statements at top level or inside blocks: any line index; the fault REPLACES
            # nothing, it is inserted as its own line, so the prefix before it is a prefix of a valid program
            k = rng.randrange(npre, len(ls))      # never inside a multi-line token of the prelude
            later = "\n".join(ls[k:])
            if fault.count('"') % 2 == 1 and '"' in later:
                continue      # an `unterminated` string would be closed by a later quote: not a fault at this line
            if "(" in fault and ")" in later:
                continue
            # do not insert inside a function header/if header gap: any line boundary is fine for the property:
            # lines before k were parsed exactly as in the valid program up to the end of line k-1
            new = ls[:k] + [fault] + ls[k:]
            mode = rng.random()
            if mode < 0.15:
                new = ls[:k] + [fault]          # fault on the last line, no trailing newline
            cases.append({"src": "\n".join(new), "line": k + 1, "fault": fault})
    plines = [f"(exec f{i} parse {C.hx(c['src'])})" for i, c in enumerate(cases)]
    r, _ = suite.compare(chk, plines, "faults", project=lambda x: x, suite_name="PARSE-faults")
    # where the error is reported under every layout: inserted lines of every kind, line-ending conventions, truncation, joined
    # statements (gen_layout), and adjacent-token pairs in statement contexts (gen_pairs); verdict, line and message: model = implementation
    from . import gen_layout, gen_pairs
    from . import c01
    ltexts = [t for (_, t) in gen_layout.variants(quick, rng)] + gen_pairs.pair_texts(rng, limit=4000 if quick else 30000)
    # one word too many after a complete statement of every form (every token spelling); chains of every repeatable construct
    # errors raised after the parser has read on to the end of input, with multi-line comments / strings behind the last statement (F16)
    for tail in (" (a\nb)", " (a\nb) (c\nd\ne)", "\t(a\n\u00e9)'", " (a\n\n\n)", " (c)", " \"a\nb\"", " (a\nb)\n", ""):
        for head in ("Tommy is a -", "Tommy was a lovestruck -", "rock X like a -", "Tommy say'x", "Tommy says'", "'re Say'", "X say,", "Tommy is", "say", "put 1 into",
                     "if", "let X be", "F takes", "say 1 +", "turn", "listen to", "X at", "roll", "cut X into", "say F taking", "build X", "give back"):
            ltexts.append(head + tail)
            ltexts.append("say 0\n" + head + tail)
    ltexts += c01.trailing(rng, limit=8000 if quick else None) + c01.chains() + c01.deep_nesting([1, 2, 3, 4, 5, 6, 9])
    suite.compare(chk, [f"(exec y{i} parse {C.hx(t)})" for i, t in enumerate(ltexts)], "layouts", project=lambda x: x, suite_name="PARSE-layouts")
    bad = 0
    for i, c in enumerate(cases):
        for side in ("debug", "release"):
            v = r[side].get(f"f{i}", "")
            chk.count("fault-result:" + v.split(" ")[0])
            problem = None
            if v.startswith("ok "):
                problem = "a program with an injected syntax fault was accepted"
            elif v.startswith("err "):
                ln = int(v.split(" ")[2])
                if ln != c["line"]:
                    # an error reported on an EARLIER line is impossible for a valid prefix; a later line is a wrong attribution
                    problem = f"the error is attributed to line {ln}, the fault is on line {c['line']}"
            else:
                problem = f"the parser did not return an error: {v[:40]}"
            if problem and is_context_free(c):
                bad += 1
                if bad <= 4:
                    chk.add_violation("syntax fault: " + problem, {"oracle": "fault-line", "profile": side, "src": c["src"], "fault": c["fault"],
                                      "fault_line": c["line"], "impl": C.decode_hex_fields(v)[:400]})
        chk.distinct.add((c["fault"], r["debug"].get(f"f{i}", "").split(" ")[1] if r["debug"].get(f"f{i}", "").startswith("err") else "other"))
    chk.samples = [{"src": c["src"], "fault": c["fault"], "line": c["line"]} for c in cases[:3]]
    chk.rule = ("valid generated programs (accepted by the implementation) x insertion of one faulty line from a catalogue of "
                f"{len(FAULTS)} context-independent faults (missing operand/keyword, two statements on a line, invalid identifier, "
                "unterminated string/comment at statement start, missing identifier after a prefix, bad hyphenation) at a random "
                "line, also as the last line without newline; oracle on the implementation: result is Err and its line is the "
                "fault's line; plus model = implementation on code, line and message. distinct = (fault, error code)")
    conclude(chk, "C13", proved)


HEADERS = re.compile(r"^(if|while|until|else)\b|\b(takes|wants)\b", re.I)


def is_context_free(c):
    """The fault line must start a statement: not directly after a line that continues onto it.
    In Rockstar as implemented nothing continues across a newline except an unterminated string or
    comment (the generators make none), so every insertion point qualifies, except that a fault of the
    'unterminated' family swallows the rest of the file and is reported where it starts (its own line)."""
    return True
