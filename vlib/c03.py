"""C03 — expressions evaluate by the value rules for every operand kind."""
from . import common as C
from . import suite, execsuite, values, srcvalues
from .propbase import *
from . import basesuites


def run(chk):
    proved = setup(chk, "C03")
    basesuites.run_f64(chk, 1500 if chk.tier == "quick" else 20000)
    rng = rng_for(chk, 3)
    quick = chk.tier == "quick"
    # (1) value-level tables, exhaustive over U x U through the public Val API
    U = values.universe(small=quick)
    lines = []
    ops = ["plus", "minus", "times", "over", "equals", "compare"]
    for i, a in enumerate(U):
        for j, b in enumerate(U):
            for op in ops:
                lines.append(f"(val {op[0]}{op[1]}{i}_{j} {op} {a} {b})")
        for op in ("negate", "truthy", "output", "display"):
            lines.append(f"(val {op[:2]}{i} {op} {a})")
        for k in (1, -1, 2, -3):
            lines.append(f"(val in{i}_{k} inc {a} {k})")
    # the long tail: rarely met shapes against a fixed set of partners, both ways
    for i, a in enumerate(values.LONGS):
        for j, b in enumerate(values.PARTNERS + [a]):
            for op in ops:
                lines.append(f"(val L{op[0]}{op[1]}{i}_{j} {op} {a} {b})")
                lines.append(f"(val R{op[0]}{op[1]}{i}_{j} {op} {b} {a})")
        for op in ("negate", "truthy", "output", "display"):
            lines.append(f"(val L{op[:2]}{i} {op} {a})")
        for k in (1, -1, 1000000):
            lines.append(f"(val Lin{i}_{k} inc {a} {k})")
    res, agreed = suite.compare(chk, lines, "val", suite_name="VAL")
    for l in lines:
        cid = C.case_id(l)
        r = res["debug"].get(cid, "")
        chk.distinct.add((cid[:2], r.split(" ")[0], r.split(" ")[1] if r.startswith("err") else ""))
    # (2) one-line programs: every operator spelling on every pair of source values
    vals = srcvalues.by_name(srcvalues.QUICK if quick else None)
    cases = []
    for (na, sa, ea, ka) in vals:
        for (nb, sb, eb, kb) in vals:
            for opname, spellings in srcvalues.BINOPS.items():
                sp = rng.choice(spellings) if quick else None
                for s in ([sp] if quick else spellings[:2]):
                    src = "\n".join(sa + [x for x in sb if x not in sa] + [f"say {ea} {s} {eb}"]) + "\n"
                    cases.append({"src": src, "meta": {"op": opname, "a": na, "b": nb}})
        for un in ("-", "not "):
            if un == "-" and not ea[0].isdigit():
                src = "\n".join(sa + [f"say 0 - {ea}"]) + "\n"
            else:
                src = "\n".join(sa + [f"say {un}{ea}"]) + "\n"
            cases.append({"src": src, "meta": {"op": "unary" + un.strip(), "a": na}})
        # compound assignment, lists folded left to right, inc/dec, short-circuit with side effects
        cases.append({"src": "\n".join(sa + [f"put {ea} into T", "let T be with 1, \"x\", 2", "say T"]) + "\n", "meta": {"op": "compound+list", "a": na}})
        cases.append({"src": "\n".join(sa + [f"put {ea} into T", "let T be times 2, 3", "say T", "build T up, up", "say T", "knock T down", "say T"]) + "\n", "meta": {"op": "compound*,inc", "a": na}})
        cases.append({"src": "\n".join(sa + ["Shouter takes X", "say X", "give back X", "", f"say {ea} and Shouter taking 1", f"say {ea} or Shouter taking 2", f"say {ea} nor Shouter taking 3", f"say {ea} and Shouter taking 0, Shouter taking 5"]) + "\n", "meta": {"op": "short-circuit", "a": na}})
    # a list after a plain (non-compound) assignment is an error of its own
    for lst in ("1, 2", "X, 2", "1, 2, 3", "\"a\", \"b\"", "1, Nope"):
        for form in ("let T be {L}", "let Arr at 0 be {L}", "let it be {L}"):
            cases.append({"src": "put 5 into X\nsay \"before\"\n" + form.replace("{L}", lst) + "\nsay \"after\"\nsay T\n", "meta": {"op": "plain-assignment-list"}})
    # evaluation order made observable by a callee that prints its argument: every statement with more than one evaluated part
    loud = ("Loud takes V\nsay V\ngive back V\n\nPair takes A and B\ngive back A\n\nrock Inner with 5, 6, \"a-b\"\nrock Arr with 1, 2\nlet Arr at 2 be Inner\n"
            "rock Idx with 0, 1, 2\n")
    for st in ["let Arr at Loud taking 1 be Loud taking 2", "put Loud taking 1 into Arr at Loud taking 0", "rock Arr at Loud taking 2 with Loud taking 1, Loud taking 3",
               "say Arr at Loud taking 2 at Loud taking 1", "say Loud taking 1 plus Loud taking 2 times Loud taking 3", "say Loud taking 1 is Loud taking 2",
               "say Loud taking 1 minus Loud taking 2, Loud taking 3", "roll Arr at Loud taking 2 into Arr at Loud taking 0", "listen to Arr at Loud taking 0",
               "let Arr at Loud taking 0 be with Loud taking 1", "say Pair taking Loud taking 1, Loud taking 2", "Pair taking Loud taking 1, Loud taking 2",
               "turn up Arr at Loud taking 0", "cut Arr at Loud taking 2 at Loud taking 2 into Arr at Loud taking 1 with Loud taking \"-\"",
               "if Loud taking 1 and Loud taking 0\nsay \"then\"\nelse\nsay \"else\"\n", "until Loud taking 1 or Loud taking 0\n\n",
               "let Arr at roll Idx be roll Idx", "put roll Idx into Arr at roll Idx", "say roll Idx minus roll Idx", "rock Arr at roll Idx with roll Idx, roll Idx",
               "say Arr at roll Idx at roll Idx", "build Arr at Loud taking 0 up", "say Loud taking Loud taking 1 with Loud taking 2",
               "let Arr at Loud taking 0 at Loud taking 1 be Loud taking 2", "say not Loud taking 0 nor Loud taking 1", "give back Loud taking 1 with Loud taking 2"]:
        cases.append({"src": loud + st + "\nsay Arr at 0\nsay Arr at 1\nsay Arr\nsay Idx\n", "stdin": "in\n", "meta": {"op": "evaluation-order"}})
    from . import compound
    for a, b, m in compound.pairs(ops=["with", "minus", "times", "over"] if quick else None):
        cases.append({"src": a, "meta": dict(m, form="compound")})
    cases += [{"src": c["src"], "meta": {"corpus": c.get("note")}} for c in corpus_cases("exec")]
    # values that only arise after many steps or at the edges of a representation
    from . import gen_longcalc
    cases += [{"src": c["src"], "meta": {"op": c["meta"]}} for c in gen_longcalc.programs(quick)]
    recs = execsuite.run(chk, cases, "expr", suite_name="EXEC-expr")
    record_exec(chk, recs, sig=lambda r: (str(r["case"].get("meta")), outcome_class(r["impl"].get("debug", ""))))
    # (3) generated programs with nested expressions in every statement position
    gen = exec_cases(chk, 250 if quick else 2500, focus={"say": 8, "assign": 8, "lists": 0.3}, salt=33)
    recs2 = execsuite.run(chk, gen, "gen", suite_name="EXEC-gen")
    record_exec(chk, recs2)
    chk.rule = ("(1) exhaustive U x U for + - * / equality ordering, U for negate/truthiness/printing/inc, through the Val API; "
                "(2) one-line programs: every operator (a random alias per pair in quick, two in thorough) on every ordered pair of "
                "source-level values incl. NaN/inf/-0/arrays with dictionaries, unary ops, compound assignment with list operands, "
                "inc/dec, and/or/nor with a printing function as right operand (short-circuit observable), running sums / products / counters "
                "over 0..1025 iterations, counters across 2^53 / 2^32 / 1e21, strings / arrays / dictionaries grown by loops, repetition "
                "counts and code points at every boundary, number -> text -> number, every radix; (3) generated programs. "
                "distinct = (operation, operand names, outcome class) signatures")
    conclude(chk, "C03", proved)
