"""C02 — every spelling of a program parses to the same syntax tree."""
import re
from . import suite, gen_prog
from .propbase import *
from . import basesuites

NOISE_WS = ["  ", "\t", " \t ", " ", "   ", "\u00a0", "\u3000", " \x0b", "\u2003 ", "\x85", "\u205f", "\u1680", "\u202f"]
NOISE_PUNCT = ["!", "?", ";", ":", " !", "?!"]
COMMENTS = ["(note)", "(a comment, with stuff)", "( )", "(multi\nline)"]
SAFE_START = re.compile(r"^(say|shout|whisper|scream|put|let|if|while|until|build|knock|rock|roll|cut|split|shatter|join|unite|cast|burn|turn|give|return|send|listen)\b", re.I)


def erase_positions(ast):
    ast = re.sub(r"\(r \d+ \d+ \d+ \d+\)", "(r)", ast)
    ast = re.sub(r"\(@ \d+ \d+\)", "(@)", ast)
    ast = re.sub(r"\(empty \d+ \d+\)", "(empty)", ast)
    return ast


def add_noise(rng, src):
    """ignorable whitespace / punctuation / comments between tokens of keyword-led lines, outside strings"""
    out = []
    for line in src.split("\n"):
        if not SAFE_START.match(line) or " like " in line or " says " in line:
            out.append(line)
            continue
        parts = line.split('"')
        for i in range(0, len(parts), 2):
            seg = parts[i]
            toks = seg.split(" ")
            new = []
            for j, t in enumerate(toks):
                new.append(t)
                if j < len(toks) - 1:
                    c = rng.random()
                    if c < 0.15:
                        new.append(rng.choice(NOISE_WS))
                    elif c < 0.22 and t and toks[j + 1] and not t.endswith("'") and t not in ("-",) and toks[j + 1][0] not in "'":
                        new.append(" " + rng.choice(COMMENTS).replace("\n", " ") + " ")
                    elif c < 0.27 and t and t[-1].isalnum() and toks[j + 1] and toks[j + 1][0].isalnum():
                        new.append(rng.choice(["! ", "? ", " ; "]))
                    else:
                        new.append(" ")
            parts[i] = "".join(new)
        line2 = '"'.join(parts)
        if rng.random() < 0.2 and not line2.endswith('"') and line2.count('"') % 2 == 0:
            line2 += rng.choice(["!", " ", "\t", "?", " (done)", ";"])
        out.append(line2)
    return "\n".join(out)


def run(chk):
    proved = setup(chk, "C02")
    basesuites.run_kw(chk)
    basesuites.run_f64(chk, 1500 if chk.tier == "quick" else 20000)
    rng = rng_for(chk, 2)
    quick = chk.tier == "quick"
    n = 220 if quick else 2500
    k = 4
    seed0 = rng.randrange(10 ** 9)
    variants = []
    for v in range(k):
        progs, stats = gen_prog.gen_programs(seed0, n, spelling_seed=1000 + v, focus={"listen": 0.3, "lists": 0.45}, recase_names=False, extras=False)
        variants.append(progs)
    for key, val in stats.items():
        chk.count("gen:" + key, val)
    texts = []
    for i in range(n):
        for v in range(k):
            t = variants[v][i]
            if v >= 2:
                t = add_noise(rng, t)
            texts.append((i, v, t))
    lines = [f"(exec s{i}_{v} parse {C.hx(t)})" for (i, v, t) in texts]
    res, _ = suite.compare(chk, lines, "spell", project=lambda x: x, suite_name="PARSE-spellings")
    bad = 0
    for i in range(n):
        base = res["debug"].get(f"s{i}_0", "")
        if not base.startswith("ok "):
            chk.count("base-not-accepted")
            continue
        chk.count("trees")
        b0 = erase_positions(base)
        chk.distinct.add(hash(b0) % 1000003)
        for v in range(1, k):
            for side in ("debug", "release"):
                r = res[side].get(f"s{i}_{v}", "")
                if erase_positions(r) != b0:
                    bad += 1
                    if bad <= 4:
                        d = first_diff(b0, erase_positions(r))
                        chk.add_violation("two spellings of one program parse to different trees",
                                          {"oracle": "spelling-invariance", "profile": side, "spelling_a": variants[0][i],
                                           "spelling_b": [t for (ii, vv, t) in texts if ii == i and vv == v][0],
                                           "tree_a_at_diff": C.decode_hex_fields(b0[max(0, d - 200):d + 200]),
                                           "tree_b_at_diff": C.decode_hex_fields(erase_positions(r)[max(0, d - 200):d + 200])})
    # literals denote exactly their written value
    lits = ["0", "1", "0.1", "1e3", "123456789012345678", "1.7976931348623157e308", "5e-324", "1e400", ".5", "5.", "0.30000000000000004",
            "9007199254740993", "1113178120592002.25", "00012", "1E5", "1e+2", "1e-2"]
    strs = ["", "a", "hello world", "  spaced  ", "it's (not) a comment", "ünï", "a\nb", "1, 2; 3!", "'s", "say 1"]
    # poetic literals: every keyword alias that is a plain word there (operators, minus/without, literals' names), first and later,
    # before digit groups, words, full stops and nothing
    pw = ["minus", "without", "Minus", "WITHOUT", "plus", "with", "times", "of", "over", "between", "not", "non", "nothing", "nobody", "true", "ok",
          "mysterious", "empty", "silent", "-", "-5", "- 5", "+", "a"]
    poetic = [f"{lhs} {cop}{w}{rest}" for lhs, cop in (("Tommy", "is "), ("My heart", "was "), ("They", "are "), ("Tommy", "were "), ("Tommy", "'s "), ("We", "'re "))
              for w in pw for rest in (" 5", " 1 degrees", "", " 40. 2", " 1e3", " lovestruck 7", ". 5")]
    from . import gen_alias
    alias_cases = gen_alias.programs(quick, rng)
    from . import c01
    chains = c01.deep_nesting([1, 2, 3, 4, 5, 6, 9]) + c01.chains()
    l2 = [f"(exec a{i} parse {C.hx(c['src'])})" for i, c in enumerate(alias_cases)] + \
         [f"(exec k{i} parse {C.hx(t)})" for i, t in enumerate(chains)] + \
         [f"(exec w{i} parse {C.hx(t + chr(10) + 'say it' + chr(10))})" for i, t in enumerate(poetic)] + \
         [f"(exec n{i} parse {C.hx('say ' + t)})" for i, t in enumerate(lits)] + \
         [f"(exec q{i} parse {C.hx('say ' + chr(34) + t + chr(34))})" for i, t in enumerate(strs)]
    r2, _ = suite.compare(chk, l2, "lits", project=lambda x: x, suite_name="PARSE-literals")
    # every alias in every position of its group: the tree is the first alias's tree
    base_tree = {c["meta"]["template"]: i for i, c in enumerate(alias_cases) if c["meta"]["alias"] is None}
    nbad = 0
    for i, c in enumerate(alias_cases):
        if not c["meta"]["same_tree"]:
            continue
        for side in ("debug", "release"):
            a, b = r2[side].get(f"a{i}", ""), r2[side].get(f"a{base_tree[c['meta']['template']]}", "")
            if erase_positions(a) != erase_positions(b):
                nbad += 1
                if nbad <= 4:
                    chk.add_violation("a keyword alias changes the tree", {"oracle": "alias-invariance", "profile": side, "alias": c["meta"]["alias"], "group": c["meta"]["group"],
                                      "src": c["src"], "tree": C.decode_hex_fields(a)[:400], "tree_first_alias": C.decode_hex_fields(b)[:400]})
    for i, t in enumerate(strs):
        for side in ("debug", "release"):
            v = r2[side].get(f"q{i}", "")
            if f"(str {C.hx(t)})" not in v:
                chk.add_violation("a string literal does not denote its written text", {"oracle": "string-literal-exact", "profile": side, "text": t, "impl": C.decode_hex_fields(v)[:300]})
    chk.samples = [{"spelling_0": variants[0][0], "spelling_3_with_noise": texts[3][2]}]
    chk.rule = (f"{n} generated trees (18 statement kinds, nested blocks/functions, list operands) x {k} renderings each: aliases, "
                "letter case of keywords and name mentions, separators (, & 'n' and), optional words, and for two of them extra "
                "ignorable whitespace, punctuation and comments between tokens; oracle: trees equal after erasing source positions "
                "(debug and release); model parser = implementation on every rendering (tree with positions, or error); number and "
                "string literals denote their written value; every keyword alias (lower, Title, upper case) in every grammatical position of its "
                "group in 17 statement templates: same tree as the first alias (except where the spelling is data); every keyword alias as "
                "first / later word of a poetic literal. distinct = distinct position-erased trees")
    conclude(chk, "C02", proved)


def first_diff(a, b):
    for i in range(min(len(a), len(b))):
        if a[i] != b[i]:
            return i
    return min(len(a), len(b))
