"""Rockstar source expressions denoting the values of a universe (for one-line programs)."""

# name -> (setup lines, expression text, kind)
SRC_VALUES = [
    ("mysterious", [], "mysterious", "mysterious"),
    ("null", [], "null", "null"),
    ("true", [], "true", "boolean"),
    ("false", [], "lies", "boolean"),
    ("zero", [], "0", "number"),
    ("negzero", ["let Nz be 0 times -1"], "Nz", "number"),
    ("one", [], "1", "number"),
    ("minusone", [], "-1", "number"),
    ("half", [], "0.5", "number"),
    ("frac", [], "-2.5", "number"),
    ("three", [], "3", "number"),
    ("big", ["let Bignum be 9007199254740992"], "Bignum", "number"),
    ("huge", ["let Hu be 1000000000000000000000 times 1000000000000000000000"], "Hu", "number"),
    ("nan", ["let Nn be 0 over 0"], "Nn", "number"),
    ("inf", ["let Pinf be 1 over 0"], "Pinf", "number"),
    ("neginf", ["let Ninf be -1 over 0"], "Ninf", "number"),
    ("empty", [], "\"\"", "string"),
    ("a", [], "\"a\"", "string"),
    ("abc", [], "\"abc\"", "string"),
    ("numstr", [], "\"1\"", "string"),
    ("padded", [], "\" 1\"", "string"),
    ("fracstr", [], "\"0.5\"", "string"),
    ("nanstr", [], "\"NaN\"", "string"),
    ("truestr", [], "\"true\"", "string"),
    ("uni", [], "\"é\"", "string"),
    ("emptyarr", ["rock Ea"], "Ea", "array"),
    ("arr1", ["rock Aone with 1"], "Aone", "array"),
    ("arr3", ["rock Athree with \"a\", 2, mysterious"], "Athree", "array"),
    ("arrdict", ["rock Ad with 1", "let Ad at \"k\" be 2"], "Ad", "array"),
    ("arrnest", ["rock Inner with 1, 2", "rock Nest with Inner, 3"], "Nest", "array"),
]

QUICK = ["mysterious", "null", "true", "false", "zero", "negzero", "one", "frac", "nan", "inf", "empty", "abc",
         "numstr", "padded", "emptyarr", "arr1", "arrdict"]

BINOPS = {
    "plus": ["+", "plus", "with"],
    "minus": ["-", "minus", "without"],
    "times": ["*", "times", "of"],
    "over": ["/", "over", "between"],
    "and": ["and"], "or": ["or"], "nor": ["nor"],
    "eq": ["is", "are", "was", "were"],
    "ne": ["isnt", "isn't", "aint", "is not", "ain't"],
    "gt": ["is greater than", "is higher than", "is bigger than", "is stronger than", ">"],
    "ge": ["is as great as", "is as high as", "is as big as", "is as strong as", ">="],
    "lt": ["is less than", "is lower than", "is smaller than", "is weaker than", "<"],
    "le": ["is as little as", "is as low as", "is as small as", "is as weak as", "<="],
}


def by_name(names=None):
    tab = {n: (s, e, k) for n, s, e, k in SRC_VALUES}
    if names is None:
        names = [n for n, _, _, _ in SRC_VALUES]
    return [(n,) + tab[n] for n in names]
