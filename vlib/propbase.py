"""Helpers shared by the per-property check modules."""
import json, os, random, re
from . import common as C
from . import suite, execsuite, gen_prog, gen_lex
from .proof import prove

TRUSTED_COMMON = [
    "Coq 8.16.1 kernel (coqc, full .vo build, no -vos); vm_compute only in Examples; no native_compute",
    "extraction: ExtrOcamlBasic only (bool/option/unit/list/prod/sumbool mapped to OCaml types; N, Z, positive, nat, "
    "comparison, spec_float stay Coq datatypes); OCaml driver /verif/driver; ocamlfind ocamlopt",
    "Rust harness /verif/harness (rebuilt from /repo's working tree, debug and release) and the Python orchestrator /verif/vlib",
    "hand-written Gallina model of the Rust sources (coq/Base, Front, Exec, Analysis, Lint), tied to the code by the "
    "correspondence suites named in coverage.suites; f64<->text conversions are ports checked by suite F64",
]
ASSUME_COMMON = [
    "Rust std behaves as modelled (HashMap, VecDeque, Rc::make_mut, BufReader, str::parse::<f64>, f64 Display, powi, char tables)",
    "stack/heap exhaustion are outside the model (bounded by the stated step/size/depth budgets)",
]


def setup(chk, pid):
    proved = prove(chk, pid)
    used = sorted({a for t in chk.theorems.values() for a in t.get("axioms", [])})
    chk.trusted.append("axioms the pinned theorems depend on (Print Assumptions, per theorem in coverage.theorems): " +
                       (", ".join(used) + " — axioms of Coq's own standard library (classical reals, reached through Flocq in Proofs/FloatExact.v)"
                        if used else "none (every pinned theorem is closed under the global context)"))
    chk.trusted += TRUSTED_COMMON
    chk.assumptions += ASSUME_COMMON
    C.build_driver()
    C.build_harness()
    return proved


def conclude(chk, pid, proved):
    if not proved:
        has_input = any(not ni for _, _, ni in chk.violations)
        chk.add_violation(f"proof obligations of {pid} no longer check", chk.proof_failure, no_input=not has_input)


def rng_for(chk, salt=0):
    return random.Random(C.seed() * 1000003 + salt)


def exec_cases(chk, n, focus=None, illtyped=False, salt=0, stdin=True):
    rng = rng_for(chk, salt)
    progs, stats = gen_prog.gen_programs(rng.randrange(10 ** 9), n, illtyped=illtyped, focus=focus)
    cases = [{"src": p, "stdin": gen_prog.gen_stdin(rng) if stdin else ""} for p in progs]
    for k, v in stats.items():
        chk.count("gen:" + k, v)
    return cases


def outcome_class(text):
    st, _ = execsuite.split_out(text)
    if st.startswith("err"):
        return "err:" + st.split()[1]
    return st.split()[0] if st else "?"


def record_exec(chk, recs, sig=None):
    """distribution + distinct signatures for exec records"""
    for r in recs:
        d = r["impl"].get("debug", "")
        oc = outcome_class(d)
        chk.count("outcome:" + oc)
        s = sig(r) if sig else (oc, len(r["case"]["src"].split("\n")), hash(r["case"]["src"]) % 100003)
        chk.distinct.add(s)
    if recs:
        chk.samples += [{"src": r["case"]["src"], "stdin": r["case"].get("stdin", ""),
                         "impl": C.decode_hex_fields(r["impl"].get("debug", ""))[:300]} for r in recs[:3]]


def corpus_cases(name):
    """shrunk failures kept from earlier runs + seeds of section 8: run first in every tier"""
    p = f"{C.VERIF}/corpus/{name}.json"
    if os.path.exists(p):
        return json.load(open(p))
    return []


def known_finding_crash(chk, fid):
    """Runs the recorded input of a known finding; prints KNOWN-FINDING while the implementation still
    misbehaves on it (and nothing once it no longer does).  Never adds findings at run time."""
    kf = C.load_known_findings()
    for f in kf.get("findings", []):
        if f["id"] != fid or f["property"] != chk.pid:
            continue
        line = f"(exec kf run {C.hx(f['input'])} {C.hx(f.get('stdin', ''))} none none)"
        res, _ = C.run_cases({"debug": [line], "release": [line]}, f"{chk.pid}_kf_{fid}")
        bad = [p for p in ("debug", "release") if execsuite.canon_impl(res[p]["kf"]) in ("crash", "timeout")]
        if bad:
            chk.known.append(f"{fid}: {f['what']} (still crashes in: {', '.join(bad)}; input {f['input']!r})")
