(* Correspondence driver: runs the extracted Coq model on a case file, one result line per case.
   Case line:  (<suite> <id> <op> <args...>)      Result line:  <id>\t<result> *)
open Model
open Sx
type string = Stdlib.String.t
type char = Stdlib.Char.t

let site_name = Main_common.site_name

(* render a res into the canonical result text *)
let render_res (ok : 'a -> string) (err : 'e -> string) (r : ('e, 'a) res) : string =
  match r with
  | Ok a -> "ok " ^ ok a
  | Err e -> "err " ^ err e
  | Panic s -> "panic " ^ site_name s
  | UB s -> "ub " ^ site_name s
  | OutOfFuel -> "outoffuel"
  | OverBudget -> "overbudget"

let verr (e : val_error) : string =
  utf8_of_str (val_error_name e) ^ " " ^ atom_of_str (val_error_display e)
let vshow (v : val0) : string = atom_of_str (v_display v)
let bshow (b : bool) : string = if b then "true" else "false"

let cmp_show (c : comparison option) : string =
  match c with None -> "none" | Some Eq -> "eq" | Some Lt -> "lt" | Some Gt -> "gt"

let run_val (op : string) (args : sexp list) : string =
  let v i = val_of_sexp (List.nth args i) in
  let ov i = opt_val_of_sexp (List.nth args i) in
  let pure x = render_res vshow verr (Ok x) in
  match op with
  | "display" -> "ok " ^ vshow (v 0)
  | "output" -> render_res atom_of_str verr (to_string_for_output (v 0))
  | "truthy" -> "ok " ^ bshow (is_truthy (v 0))
  | "equals" -> render_res bshow verr (v_equals (v 0) (v 1))
  | "compare" -> render_res cmp_show verr (v_compare (v 0) (v 1))
  | "plus" -> pure (v_plus (v 0) (v 1))
  | "minus" -> pure (v_subtract (v 0) (v 1))
  | "times" -> render_res vshow verr (v_multiply (v 0) (v 1))
  | "over" -> pure (v_divide (v 0) (v 1))
  | "negate" -> render_res vshow verr (v_negate (v 0))
  | "inc" ->
      let k = (match List.nth args 1 with A a -> int_of_string a | _ -> raise (Parse_error "inc")) in
      render_res vshow verr (v_inc (v 0) (z_of_int k))
  | "round_up" -> render_res vshow verr (v_round_up (v 0))
  | "round_down" -> render_res vshow verr (v_round_down (v 0))
  | "round_nearest" -> render_res vshow verr (v_round_nearest (v 0))
  | "split" -> render_res vshow verr (v_split (v 0) (ov 1))
  | "join" -> render_res vshow verr (v_join (v 0) (ov 1))
  | "cast" -> render_res vshow verr (v_cast (v 0) (ov 1))
  | "index" -> render_res vshow verr (v_index (v 0) (v 1))
  | "update" ->
      (* index_or_insert(k) then assign *)
      let nv = v 2 in
      render_res (fun (a, ()) -> vshow a) verr (v_update_at (v 0) (v 1) (fun _ -> Ok (nv, ())))
  | "push" ->
      let vals = (match List.nth args 1 with L l -> List.map val_of_sexp l | _ -> raise (Parse_error "push")) in
      render_res vshow verr (v_push (v 0) vals)
  | "pop" -> render_res (fun (a, x) -> vshow a ^ " " ^ vshow x) verr (v_pop (v 0))
  | _ -> "unknown-op " ^ op

let run_f64 (op : string) (args : sexp list) : string =
  let a i = (match List.nth args i with A a -> a | _ -> raise (Parse_error "atom")) in
  match op with
  | "display" -> "ok " ^ atom_of_str (f64_display (f64_of_atom (a 0)))
  | "parse" ->
      (match f64_parse (str_of_atom (a 0)) with
       | Some x -> "ok " ^ atom_of_f64 x
       | None -> "err")
  | "radix" ->
      (match i64_from_str_radix (str_of_atom (a 0)) (z_of_int (int_of_string (a 1))) with
       | Some x -> "ok " ^ atom_of_f64 (f_of_Z x)   (* compared as the f64 the cast produces *)
       | None -> "err")
  | "powi" -> "ok " ^ atom_of_f64 (fpowi (f64_of_atom (a 0)) (z_of_int (int_of_string (a 1))))
  | "arith" ->
      let x = f64_of_atom (a 0) and y = f64_of_atom (a 1) in
      "ok " ^ String.concat " " (List.map atom_of_f64 [fadd x y; fsub x y; fmul x y; fdiv x y;
                                                        fceil x; ffloor x; fround x; ftrunc x])
      ^ " " ^ dec_of_n (f_to_usize x) ^ " " ^ atom_of_f64 (f_of_Z (f_to_i64 x))
  | _ -> "unknown-op " ^ op

let uni_tables () : string =
  let rs name l = name ^ " " ^ String.concat "," (List.map (fun (a, b) -> Printf.sprintf "%d-%d" (int_of_n a) (int_of_n b)) l) in
  let lower = String.concat "," (List.map (fun (k, v) -> Printf.sprintf "%d:%s" (int_of_n k) (String.concat "+" (List.map (fun x -> string_of_int (int_of_n x)) v))) tolower_table) in
  String.concat ";" [rs "alphabetic" alphabetic_ranges; rs "numeric" numeric_ranges; rs "whitespace" whitespace_ranges;
                     rs "uppercase" uppercase_ranges; rs "lowercase" lowercase_ranges; "tolower " ^ lower]

let run_uni (lo : int) (hi : int) : string =
  (* a digest line per code point would be large: print per-code-point flags compactly *)
  let b = Buffer.create ((hi - lo) * 4) in
  for c = lo to hi - 1 do
    if (c < 0xd800 || c > 0xdfff) then begin
      let n = n_of_int c in
      let fl = (if is_alphabetic n then 1 else 0) lor (if is_numeric n then 2 else 0)
               lor (if is_whitespace n then 4 else 0) lor (if is_uppercase n then 8 else 0)
               lor (if is_lowercase n then 16 else 0) in
      let low = List.map int_of_n (char_to_lowercase n) in
      if fl <> 0 || low <> [c] then
        Buffer.add_string b (Printf.sprintf "%x:%x:%s;" c fl (String.concat "+" (List.map (Printf.sprintf "%x") low)))
    end
  done;
  Buffer.contents b

let run_case (line : string) : string =
  match parse_sexp line with
  | L (A suite :: A id :: A op :: args) ->
      let r =
        try
          (match suite with
           | "val" -> run_val op args
           | "f64" -> run_f64 op args
           | "uni" when op = "tables" -> uni_tables ()
           | "uni" when op = "points" ->
               String.concat ";" (List.map (fun a -> match a with A x -> let c = int_of_string x in run_uni c (c + 1) | _ -> "") args)
           | "uni" -> run_uni (int_of_string op) (match args with [A h] -> int_of_string h | _ -> 0)
           | _ -> Ext.run suite op args)
        with
        | Parse_error m -> "driver-error " ^ m
        | Stack_overflow -> "driver-error stack-overflow"
        | Failure m -> "driver-error " ^ m
        | Not_found -> "driver-error not-found"
        | Invalid_argument m -> "driver-error " ^ m
      in
      id ^ "\t" ^ r
  | _ -> "?\tdriver-error bad-case-line"

let () =
  let ic = if Array.length Sys.argv > 1 then open_in Sys.argv.(1) else stdin in
  let oc = if Array.length Sys.argv > 2 then open_out Sys.argv.(2) else stdout in
  (try
     while true do
       let line = input_line ic in
       if String.length line > 0 && line.[0] = '(' then begin
         output_string oc (run_case line);
         output_char oc '\n'
       end
     done
   with End_of_file -> ());
  close_out oc
