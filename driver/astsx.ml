(* syntax tree <-> S-expressions (the same form as harness/src/astser.rs) *)
open Model
open Sx
type string = Stdlib.String.t
type char = Stdlib.Char.t

let err m = raise (Parse_error m)
let int_atom x = match x with A a -> int_of_string a | _ -> err "int"
let n_atom x = n_of_int (int_atom x)

let range_of x = match x with
  | L [A "r"; a; b; c; d] -> { rstart = { line = n_atom a; col = n_atom b }; rend = { line = n_atom c; col = n_atom d } }
  | _ -> err ("range: " ^ sexp_to_string x)
let loc_of x = match x with
  | L [A "@"; a; b] -> { line = n_atom a; col = n_atom b }
  | _ -> err "loc"
let sx_range (r : range) =
  L [A "r"; A (dec_of_n r.rstart.line); A (dec_of_n r.rstart.col); A (dec_of_n r.rend.line); A (dec_of_n r.rend.col)]

let literal_of x = match x with
  | L [A "mys"] -> LMysterious
  | L [A "bool"; A b] -> LBool (b = "1")
  | L [A "null"] -> LNull
  | L [A "num"; A h] -> LNumber (f64_of_atom h)
  | L [A "str"; A s] -> LString (str_of_atom s)
  | _ -> err "literal"
let sx_literal l = match l with
  | LMysterious -> L [A "mys"]
  | LBool b -> L [A "bool"; A (if b then "1" else "0")]
  | LNull -> L [A "null"]
  | LNumber f -> L [A "num"; A (atom_of_f64 f)]
  | LString s -> L [A "str"; A (atom_of_str s)]

let varname_of x = match x with
  | L [A "simple"; A s] -> Simple (str_of_atom s)
  | L [A "common"; A p; A w] -> Common (str_of_atom p, str_of_atom w)
  | L (A "proper" :: ws) -> Proper (List.map (fun w -> match w with A a -> str_of_atom a | _ -> err "proper") ws)
  | _ -> err ("varname: " ^ sexp_to_string x)
let sx_varname v = match v with
  | Simple s -> L [A "simple"; A (atom_of_str s)]
  | Common (p, w) -> L [A "common"; A (atom_of_str p); A (atom_of_str w)]
  | Proper ws -> L (A "proper" :: List.map (fun w -> A (atom_of_str w)) ws)

let ident_of x = match x with L [A "pronoun"] -> IPronoun | _ -> IVar (varname_of x)
let sx_ident i = match i with IPronoun -> L [A "pronoun"] | IVar v -> sx_varname v

let binop_of a = match a with
  | "plus" -> OpPlus | "minus" -> OpMinus | "times" -> OpMultiply | "over" -> OpDivide
  | "and" -> OpAnd | "or" -> OpOr | "nor" -> OpNor | "eq" -> OpEq | "ne" -> OpNotEq
  | "gt" -> OpGreater | "ge" -> OpGreaterEq | "lt" -> OpLess | "le" -> OpLessEq
  | _ -> err ("binop " ^ a)
let binop_name o = match o with
  | OpPlus -> "plus" | OpMinus -> "minus" | OpMultiply -> "times" | OpDivide -> "over"
  | OpAnd -> "and" | OpOr -> "or" | OpNor -> "nor" | OpEq -> "eq" | OpNotEq -> "ne"
  | OpGreater -> "gt" | OpGreaterEq -> "ge" | OpLess -> "lt" | OpLessEq -> "le"

let rec primary_of x = match x with
  | L [A "lit"; l; r] -> PLit (literal_of l, range_of r)
  | L [A "id"; i; r] -> PIdent (ident_of i, range_of r)
  | L [A "sub"; a; s] -> PSubscript (primary_of a, primary_of s)
  | L (A "call" :: n :: r :: args) -> PCall (varname_of n, range_of r, List.map expr_of args)
  | L [A "pop"; a] -> PPop (primary_of a)
  | _ -> err ("primary: " ^ sexp_to_string x)
and expr_of x = match x with
  | L (A "bin" :: A o :: l :: f :: rest) -> EBinary (binop_of o, expr_of l, expr_of f, List.map expr_of rest)
  | L [A "un"; A o; e] -> EUnary ((if o = "neg" then UMinus else UNot), expr_of e)
  | _ -> EPrimary (primary_of x)

let rec sx_primary p = match p with
  | PLit (l, r) -> L [A "lit"; sx_literal l; sx_range r]
  | PIdent (i, r) -> L [A "id"; sx_ident i; sx_range r]
  | PSubscript (a, s) -> L [A "sub"; sx_primary a; sx_primary s]
  | PCall (n, r, args) -> L (A "call" :: sx_varname n :: sx_range r :: List.map sx_expr args)
  | PPop a -> L [A "pop"; sx_primary a]
and sx_expr e = match e with
  | EPrimary p -> sx_primary p
  | EBinary (o, l, f, rest) -> L (A "bin" :: A (binop_name o) :: sx_expr l :: sx_expr f :: List.map sx_expr rest)
  | EUnary (o, x) -> L [A "un"; A (match o with UMinus -> "neg" | UNot -> "not"); sx_expr x]

let lhs_of x = match x with
  | L [A "id"; i; r] -> LIdent (ident_of i, range_of r)
  | L [A "sub"; a; s] -> LSubscript (primary_of a, primary_of s)
  | _ -> err "lhs"
let sx_lhs l = match l with
  | LIdent (i, r) -> L [A "id"; sx_ident i; sx_range r]
  | LSubscript (a, s) -> L [A "sub"; sx_primary a; sx_primary s]
let opt_of f x = match x with A "none" -> None | _ -> Some (f x)
let sx_opt f x = match x with None -> A "none" | Some v -> f v

let pelems_of items = List.map (fun e -> match e with
  | L [A "w"; A s] -> PEWord (str_of_atom s)
  | L [A "x"; A s] -> PESuffix (str_of_atom s)
  | L [A "dot"] -> PEDot
  | _ -> err "pelem") items
let sx_pelems elems = L (A "plit" :: List.map (fun e -> match e with
  | PEWord s -> L [A "w"; A (atom_of_str s)]
  | PESuffix s -> L [A "x"; A (atom_of_str s)]
  | PEDot -> L [A "dot"]) elems)

let rec stmt_of x = match x with
  | L (A "assign" :: d :: o :: f :: rest) ->
      SAssign (lhs_of d, expr_of f, List.map expr_of rest, (match o with A "none" -> None | A a -> Some (binop_of a) | _ -> err "op"))
  | L [A "pnum"; d; L [A "expr"; e]] -> SPoeticNum (lhs_of d, PNExpr (expr_of e))
  | L [A "pnum"; d; L (A "plit" :: items)] -> SPoeticNum (lhs_of d, PNLit (pelems_of items))
  | L [A "pstr"; d; A s] -> SPoeticStr (lhs_of d, str_of_atom s)
  | L [A "if"; c; t; e] -> SIf (expr_of c, block_of t, opt_of block_of e)
  | L [A "while"; c; b] -> SWhile (expr_of c, block_of b)
  | L [A "until"; c; b] -> SUntil (expr_of c, block_of b)
  | L [A "inc"; i; r; k] -> SInc (ident_of i, range_of r, z_of_int (int_atom k))
  | L [A "dec"; i; r; k] -> SDec (ident_of i, range_of r, z_of_int (int_atom k))
  | L [A "input"; (L (A "@" :: _) as l)] -> SInput (None, loc_of l)
  | L [A "input"; d] -> SInput (Some (lhs_of d), { line = N0; col = N0 })
  | L [A "output"; e] -> SOutput (expr_of e)
  | L [A "mut"; A o; p; d; pa] ->
      SMutation ((match o with "cut" -> MCut | "join" -> MJoin | _ -> MCast), primary_of p, opt_of lhs_of d, opt_of expr_of pa)
  | L [A "round"; A d; e] -> SRounding ((match d with "up" -> RUp | "down" -> RDown | _ -> RNearest), expr_of e)
  | L [A "continue"; r] -> SContinue (range_of r)
  | L [A "break"; r] -> SBreak (range_of r)
  | L [A "push"; p; A "none"] -> SPush (primary_of p, None)
  | L [A "push"; p; L (A "list" :: f :: rest)] -> SPush (primary_of p, Some (PushList (expr_of f, List.map expr_of rest)))
  | L [A "push"; p; L (A "plit" :: items)] -> SPush (primary_of p, Some (PushLit (pelems_of items)))
  | L [A "popst"; p; d] -> SPop (primary_of p, opt_of lhs_of d)
  | L [A "return"; e] -> SReturn (expr_of e)
  | L [A "func"; n; r; L ps; b] ->
      SFunction (varname_of n, range_of r,
                 List.map (fun p -> match p with L [v; rr] -> (varname_of v, range_of rr) | _ -> err "param") ps, block_of b)
  | L (A "callst" :: n :: r :: args) -> SCall (varname_of n, range_of r, List.map expr_of args)
  | _ -> err ("stmt: " ^ sexp_to_string x)
and block_of x = match x with
  | L [A "empty"; l; c] -> BEmpty { line = n_atom l; col = n_atom c }
  | L (A "block" :: ss) -> BNonEmpty (List.map stmt_of ss)
  | _ -> err "block"

let program_of x = match x with
  | L (A "program" :: bs) -> List.map block_of bs
  | _ -> err "program"

let rec sx_stmt s = match s with
  | SAssign (d, f, rest, o) -> L (A "assign" :: sx_lhs d :: (match o with None -> A "none" | Some o -> A (binop_name o)) :: sx_expr f :: List.map sx_expr rest)
  | SPoeticNum (d, PNExpr e) -> L [A "pnum"; sx_lhs d; L [A "expr"; sx_expr e]]
  | SPoeticNum (d, PNLit el) -> L [A "pnum"; sx_lhs d; sx_pelems el]
  | SPoeticStr (d, s) -> L [A "pstr"; sx_lhs d; A (atom_of_str s)]
  | SIf (c, t, e) -> L [A "if"; sx_expr c; sx_block t; sx_opt sx_block e]
  | SWhile (c, b) -> L [A "while"; sx_expr c; sx_block b]
  | SUntil (c, b) -> L [A "until"; sx_expr c; sx_block b]
  | SInc (i, r, k) -> L [A "inc"; sx_ident i; sx_range r; A (dec_of_z k)]
  | SDec (i, r, k) -> L [A "dec"; sx_ident i; sx_range r; A (dec_of_z k)]
  | SInput (None, l) -> L [A "input"; L [A "@"; A (dec_of_n l.line); A (dec_of_n l.col)]]
  | SInput (Some d, _) -> L [A "input"; sx_lhs d]
  | SOutput e -> L [A "output"; sx_expr e]
  | SMutation (o, p, d, pa) ->
      L [A "mut"; A (match o with MCut -> "cut" | MJoin -> "join" | MCast -> "cast"); sx_primary p; sx_opt sx_lhs d; sx_opt sx_expr pa]
  | SRounding (d, e) -> L [A "round"; A (match d with RUp -> "up" | RDown -> "down" | RNearest -> "nearest"); sx_expr e]
  | SContinue r -> L [A "continue"; sx_range r]
  | SBreak r -> L [A "break"; sx_range r]
  | SPush (p, None) -> L [A "push"; sx_primary p; A "none"]
  | SPush (p, Some (PushList (f, rest))) -> L [A "push"; sx_primary p; L (A "list" :: sx_expr f :: List.map sx_expr rest)]
  | SPush (p, Some (PushLit el)) -> L [A "push"; sx_primary p; sx_pelems el]
  | SPop (p, d) -> L [A "popst"; sx_primary p; sx_opt sx_lhs d]
  | SReturn e -> L [A "return"; sx_expr e]
  | SFunction (n, r, ps, b) ->
      L [A "func"; sx_varname n; sx_range r; L (List.map (fun (v, rr) -> L [sx_varname v; sx_range rr]) ps); sx_block b]
  | SCall (n, r, args) -> L (A "callst" :: sx_varname n :: sx_range r :: List.map sx_expr args)
and sx_block b = match b with
  | BEmpty l -> L [A "empty"; A (dec_of_n l.line); A (dec_of_n l.col)]
  | BNonEmpty ss -> L (A "block" :: List.map sx_stmt ss)
let sx_program p = L (A "program" :: List.map sx_block p)
