(* suites beyond VAL/F64/UNI *)
open Model
open Sx
type string = Stdlib.String.t
type char = Stdlib.Char.t

let default_fuel = ref 20000

let opt_n (x : sexp) : n option = match x with A "none" -> None | A a -> Some (n_of_int (int_of_string a)) | _ -> raise (Parse_error "opt int")

let hex_of_byte_list (l : n list) : string =
  let b = Buffer.create 64 in
  List.iter (fun x -> Buffer.add_string b (Printf.sprintf "%02x" (int_of_n x))) l;
  Buffer.contents b

let profile_of (a : string) : profile = if a = "release" then Release else Debug

let render_x (r : xstate xres) : string =
  let out e = " out:" ^ hex_of_byte_list e.chan.out_bytes in
  match r with
  | XOk (_, e) -> "ok" ^ out e
  | XErr (x, e) -> "err " ^ utf8_of_str (rt_error_name x) ^ " " ^ atom_of_str (rt_error_display x) ^ out e
  | XPanic s -> "panic " ^ Main_common.site_name s
  | XUB s -> "ub " ^ Main_common.site_name s
  | XOutOfFuel -> "outoffuel"
  | XOverBudget -> "overbudget"

let run_exec (op : string) (args : sexp list) : string =
  match op, args with
  | "runast", [ast; A stdin; wb; rf; A prof] ->
      let p = Astsx.program_of ast in
      let c : channels = { in_rest = str_of_atom stdin; in_pos = N0; in_fault = opt_n rf; out_bytes = []; out_budget = opt_n wb } in
      render_x (exec_program (profile_of prof) (nat_of_int !default_fuel) p c)
  | _ -> "unknown-op " ^ op

let run (suite : string) (op : string) (args : sexp list) : string =
  match suite with
  | "exec" -> run_exec op args
  | _ -> "unknown-suite " ^ suite
