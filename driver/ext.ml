(* further suites are added here *)
let run (suite : string) (_op : string) (_args : Sx.sexp list) : string = "unknown-suite " ^ suite
