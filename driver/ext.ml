(* suites beyond VAL/F64/UNI *)
open Model
open Sx
type string = Stdlib.String.t
type char = Stdlib.Char.t

let default_fuel = ref 20000

let opt_n (x : sexp) : n option = match x with A "none" -> None | A a -> Some (n_of_int (int_of_string a)) | _ -> raise (Parse_error "opt int")

let hex_of_byte_list (l : n list) : string =
  let b = Buffer.create 64 in
  List.iter (fun x -> Buffer.add_string b (Printf.sprintf "%02x" (int_of_n x))) l;
  Buffer.contents b

let profile_of (a : string) : profile = if a = "release" then Release else Debug

let render_x (r : xstate xres) : string =
  let out e = " out:" ^ hex_of_byte_list e.chan.out_bytes in
  match r with
  | XOk (_, e) -> "ok" ^ out e
  | XErr (x, e) -> "err " ^ utf8_of_str (rt_error_name x) ^ " " ^ atom_of_str (rt_error_display x) ^ out e
  | XPanic s -> "panic " ^ Main_common.site_name s
  | XUB s -> "ub " ^ Main_common.site_name s
  | XOutOfFuel -> "outoffuel"
  | XOverBudget -> "overbudget"

let run_exec (op : string) (args : sexp list) : string =
  match op, args with
  | "runast", [ast; A stdin; wb; rf; A prof] ->
      let p = Astsx.program_of ast in
      let c : channels = { in_rest = str_of_atom stdin; in_pos = N0; in_fault = opt_n rf; out_bytes = []; out_budget = opt_n wb } in
      render_x (exec_program (profile_of prof) (nat_of_int !default_fuel) p c)
  | _ -> "unknown-op " ^ op

let ttype_text (t : ttype) : string =
  match t with
  | TStringLiteral s -> "(StringLiteral " ^ atom_of_str s ^ ")"
  | TNumber f -> "(Number " ^ atom_of_f64 f ^ ")"
  | TComment s -> "(Comment " ^ atom_of_str s ^ ")"
  | TError m -> "(Error " ^ atom_of_str m ^ ")"
  | TWord -> "Word" | TMysterious -> "Mysterious" | TNull -> "Null" | TTrue -> "True" | TFalse -> "False"
  | TEmpty -> "Empty" | TCommonVariablePrefix -> "CommonVariablePrefix" | TPronoun -> "Pronoun" | TAt -> "At"
  | TLike -> "Like" | TPlus -> "Plus" | TMinus -> "Minus" | TMultiply -> "Multiply" | TDivide -> "Divide"
  | TIs -> "Is" | TIsnt -> "Isnt" | TSays -> "Says" | TPut -> "Put" | TInto -> "Into" | TLet -> "Let" | TBe -> "Be"
  | TWith -> "With" | TNot -> "Not" | TApostropheS -> "ApostropheS" | TApostropheRE -> "ApostropheRE"
  | TAnd -> "And" | TOr -> "Or" | TNor -> "Nor" | TAs -> "As" | TBig -> "Big" | TBigger -> "Bigger"
  | TSmall -> "Small" | TSmaller -> "Smaller" | TThan -> "Than" | TGreater -> "Greater" | TGreaterEq -> "GreaterEq"
  | TLess -> "Less" | TLessEq -> "LessEq" | TIf -> "If" | TElse -> "Else" | TWhile -> "While" | TUntil -> "Until"
  | TContinue -> "Continue" | TBreak -> "Break" | TTake -> "Take" | TTop -> "Top" | TSay -> "Say"
  | TSayAlias -> "SayAlias" | TListen -> "Listen" | TTo -> "To" | TBuild -> "Build" | TKnock -> "Knock"
  | TUp -> "Up" | TDown -> "Down" | TCut -> "Cut" | TJoin -> "Join" | TCast -> "Cast" | TTurn -> "Turn"
  | TRound -> "Round" | TRock -> "Rock" | TRoll -> "Roll" | TTakes -> "Takes" | TTaking -> "Taking"
  | TReturn -> "Return" | TBack -> "Back" | TAmpersand -> "Ampersand"
  | TApostropheNApostrophe -> "ApostropheNApostrophe" | TComma -> "Comma" | TDot -> "Dot" | TNewline -> "Newline"

let token_text (t : token) : string =
  let r = t.trange in
  Printf.sprintf "(tok %s %s %s %s %s %s %s)" (ttype_text t.tid) (atom_of_str t.tspell) (dec_of_n t.tstart)
    (dec_of_n r.rstart.line) (dec_of_n r.rstart.col) (dec_of_n r.rend.line) (dec_of_n r.rend.col)

let run_lex (op : string) (args : sexp list) : string =
  match op, args with
  | "tokens", (A src :: rest) ->
      let prof = (match rest with [A p] -> profile_of p | _ -> Debug) in
      Main_common.render_res (fun pts ->
          String.concat " " (List.map (fun pt ->
            Printf.sprintf "%s (post %s %s %s)" (token_text pt.pt_tok) (dec_of_n pt.pt_line)
              (dec_of_n pt.pt_loc.line) (dec_of_n pt.pt_loc.col)) pts))
        (fun () -> "") (lex prof (str_of_atom src))
  | _ -> "unknown-op " ^ op

let parse_text (prof : profile) (src : str) : string =
  match parse prof src with
  | ParseOk p -> "ok " ^ sexp_to_string (Astsx.sx_program p)
  | ParseErr e ->
      (match parse_error_display e with
       | Ok m -> "err " ^ utf8_of_str (perr_code_name e.pe_code) ^ " " ^ dec_of_n (perr_line e) ^ " " ^ atom_of_str m
       | Panic s -> "panic render-" ^ Main_common.site_name s
       | _ -> "panic render")
  | ParseCrash (s, ub) -> (if ub then "ub " else "panic ") ^ Main_common.site_name s
  | ParseOutOfFuel -> "outoffuel"

(* run a program from source text through the model's own lexer and parser *)
let run_src (src : str) (stdin : str) wb rf prof : string =
  match parse prof src with
  | ParseOk p ->
      let c : channels = { in_rest = stdin; in_pos = N0; in_fault = rf; out_bytes = []; out_budget = wb } in
      render_x (exec_program prof (nat_of_int !default_fuel) p c)
  | ParseErr e ->
      (match parse_error_display e with
       | Ok m -> "parse-error " ^ atom_of_str m
       | _ -> "panic render")
  | ParseCrash (s, ub) -> (if ub then "ub " else "panic ") ^ Main_common.site_name s
  | ParseOutOfFuel -> "outoffuel"

let rec int_of_nat (n : nat) : int = match n with O -> 0 | S k -> 1 + int_of_nat k

let binop_debug o = match o with
  | OpPlus -> "Plus" | OpMinus -> "Minus" | OpMultiply -> "Multiply" | OpDivide -> "Divide"
  | OpAnd -> "And" | OpOr -> "Or" | OpNor -> "Nor" | OpEq -> "Eq" | OpNotEq -> "NotEq"
  | OpGreater -> "Greater" | OpGreaterEq -> "GreaterEq" | OpLess -> "Less" | OpLessEq -> "LessEq"

let event_text (e : event) : string =
  let rt r = sexp_to_string (Astsx.sx_range r) in
  match e with
  | EvLiteral (l, r) -> "(lit " ^ sexp_to_string (Astsx.sx_literal l) ^ " " ^ rt r ^ ")"
  | EvPronoun r -> "(pronoun " ^ rt r ^ ")"
  | EvSimple (s, r) -> "(simple " ^ atom_of_str s ^ " " ^ rt r ^ ")"
  | EvCommon (p, w, r) -> "(common " ^ atom_of_str p ^ " " ^ atom_of_str w ^ " " ^ rt r ^ ")"
  | EvProper (ws, r) -> "(proper " ^ String.concat " " (List.map atom_of_str ws) ^ " " ^ rt r ^ ")"
  | EvBinOp o -> "(binop " ^ binop_debug o ^ ")"
  | EvUnOp o -> "(unop " ^ (match o with UMinus -> "Minus" | UNot -> "Not") ^ ")"
  | EvPoeticElem (PEWord s) -> "(elem (w " ^ atom_of_str s ^ "))"
  | EvPoeticElem (PESuffix s) -> "(elem (x " ^ atom_of_str s ^ "))"
  | EvPoeticElem PEDot -> "(elem (dot))"

let fold_err_name e = match e with
  | FNoType -> "NoType" | FUnknownValue -> "UnknownValue" | FWrongType -> "WrongType"
  | FNeedMoreInfo -> "NeedMoreInfo" | FPossibleValueIgnored -> "PossibleValueIgnored"

let run_ana (op : string) (args : sexp list) : string =
  match args with
  | A src :: rest ->
      (match parse Debug (str_of_atom src) with
       | ParseErr e ->
           (match parse_error_display e with Ok m -> "parse-error " ^ atom_of_str m | _ -> "panic render")
       | ParseCrash (s, ub) -> (if ub then "ub " else "panic ") ^ Main_common.site_name s
       | ParseOutOfFuel -> "outoffuel"
       | ParseOk p ->
           (match op, rest with
            | "visit", [A k] ->
                let fa = if k = "none" then None else Some (nat_of_int (int_of_string k)) in
                (match record_program fa p with
                 | (calls, Inl evs) -> Printf.sprintf "ok calls=%d %s" (int_of_nat calls) (String.concat " " (List.map event_text evs))
                 | (calls, Inr k) -> Printf.sprintf "err %d calls=%d" (int_of_nat k) (int_of_nat calls))
            | "shape", [] ->
                let leaf (ev : event) (st : unit) : unit * (string, int) sum =
                  (st, Inl (match ev with
                    | EvLiteral _ -> "l" | EvPronoun _ -> "p" | EvSimple _ -> "s" | EvCommon _ -> "c" | EvProper _ -> "n"
                    | EvBinOp _ -> "b" | EvUnOp _ -> "u" | EvPoeticElem _ -> "e")) in
                (match walk_program (fun a b -> "(" ^ a ^ "+" ^ b ^ ")") "0" leaf p () with
                 | (_, Inl sh) -> "ok " ^ sh
                 | (_, Inr k) -> "err " ^ string_of_int k)
            | "fold", [] ->
                let outs = List.concat_map (fun b -> match b with
                  | BNonEmpty ss -> List.filter_map (fun s -> match s with SOutput e -> Some e | _ -> None) ss
                  | BEmpty _ -> []) p in
                "ok " ^ String.concat " " (List.map (fun e ->
                  let n = (match fold_num e with Ok x -> "ok:" ^ atom_of_f64 x | Err x -> "err:" ^ fold_err_name x | _ -> "crash") in
                  let s = (match fold_str e with Ok x -> "ok:" ^ atom_of_str x | Err x -> "err:" ^ fold_err_name x | _ -> "crash") in
                  "(" ^ n ^ " " ^ s ^ ")") outs
                  @ List.concat_map (fun b -> match b with
                      | BNonEmpty ss -> List.filter_map (fun s -> match s with
                          | SPoeticNum (_, PNLit el) | SPush (_, Some (PushLit el)) ->
                              Some ("(poetic ok:" ^ atom_of_f64 (compute_value el) ^ " err:WrongType)")
                          | _ -> None) ss
                      | BEmpty _ -> []) p)
            | "lint", [] ->
                (match lint p with
                 | Ok ds ->
                     let items = List.map (fun d ->
                       Printf.sprintf "(diag %s %s %s)" (dec_of_n d.d_line) (atom_of_str d.d_issue)
                         (String.concat " " (List.map atom_of_str d.d_suggestions))) ds in
                     let text = String.concat "\n" (List.map (fun d -> utf8_of_str (diag_display d)) ds) in
                     "ok " ^ String.concat " " items ^ " text=" ^ atom_of_utf8 text
                 | Panic s -> "panic " ^ Main_common.site_name s
                 | UB s -> "ub " ^ Main_common.site_name s
                 | OverBudget -> "overbudget"
                 | _ -> "crash")
            | _ -> "unknown-op " ^ op))
  | _ -> "driver-error args"

let run (suite : string) (op : string) (args : sexp list) : string =
  match suite with
  | "ana" -> run_ana op args
  | "exec" when op = "parse" ->
      (match args with
       | (A src :: rest) -> parse_text (match rest with [A p] -> profile_of p | _ -> Debug) (str_of_atom src)
       | _ -> "driver-error args")
  | "exec" when op = "run" ->
      (match args with
       | [A src; A stdin; wb; rf] -> run_src (str_of_atom src) (str_of_atom stdin) (opt_n wb) (opt_n rf) Debug
       | [A src; A stdin; wb; rf; A p] -> run_src (str_of_atom src) (str_of_atom stdin) (opt_n wb) (opt_n rf) (profile_of p)
       | _ -> "driver-error args")
  | "lex" -> run_lex op args
  | "exec" -> run_exec op args
  | _ -> "unknown-suite " ^ suite
