open Model
let site_name (s : site) : Stdlib.String.t =
  match s with
  | SiteUnwrap _ -> "unwrap" | SiteSlice _ -> "slice" | SiteAssert _ -> "assert"
  | SiteDebugAssert _ -> "debug_assert" | SiteUnchecked _ -> "unchecked" | SiteOverflow _ -> "overflow"

let render_res (ok : 'a -> Stdlib.String.t) (err : 'e -> Stdlib.String.t) (r : ('e, 'a) res) : Stdlib.String.t =
  match r with
  | Ok a -> let t = ok a in if t = "" then "ok" else "ok " ^ t
  | Err e -> "err " ^ err e
  | Panic s -> "panic " ^ site_name s
  | UB s -> "ub " ^ site_name s
  | OutOfFuel -> "outoffuel"
  | OverBudget -> "overbudget"
