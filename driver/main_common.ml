open Model
let site_name (s : site) : Stdlib.String.t =
  match s with
  | SiteUnwrap _ -> "unwrap" | SiteSlice _ -> "slice" | SiteAssert _ -> "assert"
  | SiteDebugAssert _ -> "debug_assert" | SiteUnchecked _ -> "unchecked" | SiteOverflow _ -> "overflow"
