(* S-expressions, and conversions between OCaml data and the extracted Coq datatypes. *)
module BigZ = Z
open Model
type string = Stdlib.String.t
type char = Stdlib.Char.t

type sexp = A of string | L of sexp list

exception Parse_error of string

let parse_sexp (s : string) : sexp =
  let n = String.length s in
  let pos = ref 0 in
  let rec skip () = while !pos < n && (s.[!pos] = ' ' || s.[!pos] = '\t' || s.[!pos] = '\n' || s.[!pos] = '\r') do incr pos done
  and one () =
    skip ();
    if !pos >= n then raise (Parse_error "eof");
    if s.[!pos] = '(' then begin
      incr pos;
      let items = ref [] in
      let fin = ref false in
      while not !fin do
        skip ();
        if !pos >= n then raise (Parse_error "unclosed");
        if s.[!pos] = ')' then (incr pos; fin := true)
        else items := one () :: !items
      done;
      L (List.rev !items)
    end else begin
      let st = !pos in
      while !pos < n && not (s.[!pos] = ' ' || s.[!pos] = '(' || s.[!pos] = ')' || s.[!pos] = '\t' || s.[!pos] = '\n' || s.[!pos] = '\r') do incr pos done;
      A (String.sub s st (!pos - st))
    end
  in
  one ()

let rec print_sexp (b : Buffer.t) (x : sexp) : unit =
  match x with
  | A a -> Buffer.add_string b a
  | L l ->
      Buffer.add_char b '(';
      List.iteri (fun i y -> if i > 0 then Buffer.add_char b ' '; print_sexp b y) l;
      Buffer.add_char b ')'

let sexp_to_string x = let b = Buffer.create 256 in print_sexp b x; Buffer.contents b

(* ---- numbers ---- *)
let rec pos_of_int (i : int) : positive =
  if i = 1 then XH else if i land 1 = 0 then XO (pos_of_int (i lsr 1)) else XI (pos_of_int (i lsr 1))
let n_of_int (i : int) : n = if i = 0 then N0 else Npos (pos_of_int i)
let z_of_int (i : int) : z = if i = 0 then Z0 else if i > 0 then Zpos (pos_of_int i) else Zneg (pos_of_int (-i))
let rec int_of_pos (p : positive) : int =
  match p with XH -> 1 | XO q -> 2 * int_of_pos q | XI q -> 2 * int_of_pos q + 1
let int_of_n (x : n) : int = match x with N0 -> 0 | Npos p -> int_of_pos p
let int_of_z (x : z) : int = match x with Z0 -> 0 | Zpos p -> int_of_pos p | Zneg p -> - (int_of_pos p)
let rec nat_of_int (i : int) : nat = if i <= 0 then O else S (nat_of_int (i - 1))

(* big Z to decimal string via repeated division in OCaml ints is not possible for big values;
   we print Z as hex of its binary digits instead *)
let rec pos_bits (p : positive) (acc : bool list) : bool list =
  match p with XH -> true :: acc | XO q -> pos_bits q (false :: acc) | XI q -> pos_bits q (true :: acc)

let rec big_of_pos (p : positive) : BigZ.t =
  match p with XH -> BigZ.one | XO q -> BigZ.shift_left (big_of_pos q) 1 | XI q -> BigZ.succ (BigZ.shift_left (big_of_pos q) 1)
let big_of_n (x : n) : BigZ.t = match x with N0 -> BigZ.zero | Npos p -> big_of_pos p
let big_of_z (x : z) : BigZ.t = match x with Z0 -> BigZ.zero | Zpos p -> big_of_pos p | Zneg p -> BigZ.neg (big_of_pos p)
let dec_of_n (x : n) : string = BigZ.to_string (big_of_n x)
let dec_of_z (x : z) : string = BigZ.to_string (big_of_z x)

(* ---- strings ---- *)
let hexdigit c = match c with
  | '0'..'9' -> Char.code c - 48 | 'a'..'f' -> Char.code c - 87 | 'A'..'F' -> Char.code c - 55
  | _ -> raise (Parse_error "hex")

let bytes_of_hex (h : string) : string =
  let n = String.length h / 2 in
  String.init n (fun i -> Char.chr (hexdigit h.[2*i] * 16 + hexdigit h.[2*i+1]))

let hex_of_bytes (s : string) : string =
  let b = Buffer.create (2 * String.length s) in
  String.iter (fun c -> Buffer.add_string b (Printf.sprintf "%02x" (Char.code c))) s;
  Buffer.contents b

let codepoints_of_utf8 (s : string) : int list =
  let n = String.length s in
  let rec go i acc =
    if i >= n then List.rev acc else
    let c = Char.code s.[i] in
    if c < 0x80 then go (i+1) (c :: acc)
    else if c < 0xe0 then go (i+2) ((((c land 0x1f) lsl 6) lor (Char.code s.[i+1] land 0x3f)) :: acc)
    else if c < 0xf0 then go (i+3) ((((c land 0x0f) lsl 12) lor ((Char.code s.[i+1] land 0x3f) lsl 6) lor (Char.code s.[i+2] land 0x3f)) :: acc)
    else go (i+4) ((((c land 0x07) lsl 18) lor ((Char.code s.[i+1] land 0x3f) lsl 12) lor ((Char.code s.[i+2] land 0x3f) lsl 6) lor (Char.code s.[i+3] land 0x3f)) :: acc)
  in go 0 []

let utf8_of_codepoints (l : int list) : string =
  let b = Buffer.create 64 in
  List.iter (fun c ->
    if c < 0x80 then Buffer.add_char b (Char.chr c)
    else if c < 0x800 then (Buffer.add_char b (Char.chr (0xc0 lor (c lsr 6))); Buffer.add_char b (Char.chr (0x80 lor (c land 0x3f))))
    else if c < 0x10000 then (Buffer.add_char b (Char.chr (0xe0 lor (c lsr 12))); Buffer.add_char b (Char.chr (0x80 lor ((c lsr 6) land 0x3f))); Buffer.add_char b (Char.chr (0x80 lor (c land 0x3f))))
    else (Buffer.add_char b (Char.chr (0xf0 lor (c lsr 18))); Buffer.add_char b (Char.chr (0x80 lor ((c lsr 12) land 0x3f))); Buffer.add_char b (Char.chr (0x80 lor ((c lsr 6) land 0x3f))); Buffer.add_char b (Char.chr (0x80 lor (c land 0x3f))))) l;
  Buffer.contents b

let str_of_utf8 (s : string) : str = List.map n_of_int (codepoints_of_utf8 s)
let utf8_of_str (s : str) : string = utf8_of_codepoints (List.map int_of_n s)

(* a string atom is '#' followed by the hex of its UTF-8 bytes *)
let str_of_atom (a : string) : str =
  if String.length a = 0 || a.[0] <> '#' then raise (Parse_error ("string atom expected: " ^ a));
  str_of_utf8 (bytes_of_hex (String.sub a 1 (String.length a - 1)))
let atom_of_str (s : str) : string = "#" ^ hex_of_bytes (utf8_of_str s)
let atom_of_utf8 (s : string) : string = "#" ^ hex_of_bytes s

(* ---- floats: 16 hex digits of the IEEE bit pattern, NaN canonical ---- *)
let f64_of_bits (bits : int64) : spec_float =
  let sign = Int64.compare (Int64.shift_right_logical bits 63) 0L <> 0 in
  let e = Int64.to_int (Int64.logand (Int64.shift_right_logical bits 52) 0x7ffL) in
  let frac = Int64.to_int (Int64.logand bits 0xfffffffffffffL) in
  if e = 0x7ff then (if frac = 0 then S754_infinity sign else S754_nan)
  else if e = 0 then (if frac = 0 then S754_zero sign else S754_finite (sign, pos_of_int frac, z_of_int (-1074)))
  else S754_finite (sign, pos_of_int (frac lor (1 lsl 52)), z_of_int (e - 1075))

let bits_of_f64 (x : spec_float) : int64 =
  let sg s = if s then Int64.shift_left 1L 63 else 0L in
  match x with
  | S754_nan -> 0x7ff8000000000000L
  | S754_infinity s -> Int64.logor (sg s) 0x7ff0000000000000L
  | S754_zero s -> sg s
  | S754_finite (s, m, e) ->
      let m = int_of_pos m and e = int_of_z e in
      if m >= (1 lsl 52) then
        Int64.logor (sg s) (Int64.logor (Int64.shift_left (Int64.of_int (e + 1075)) 52) (Int64.of_int (m land ((1 lsl 52) - 1))))
      else Int64.logor (sg s) (Int64.of_int m)

let f64_of_atom (a : string) : spec_float = f64_of_bits (Int64.of_string ("0x" ^ a))
let atom_of_f64 (x : spec_float) : string = Printf.sprintf "%016Lx" (bits_of_f64 x)

(* ---- values ---- *)
let rec val_of_sexp (x : sexp) : val0 =
  match x with
  | A "u" -> VUndef
  | A "n" -> VNull
  | L [A "b"; A "1"] -> VBool true
  | L [A "b"; A "0"] -> VBool false
  | L [A "f"; A h] -> VNum (f64_of_atom h)
  | L [A "s"; A s] -> VStr (str_of_atom s)
  | L [A "a"; L items; L entries] ->
      VArr (List.map val_of_sexp items,
            List.map (fun e -> match e with
                        | L [k; v] -> (key_of_sexp k, val_of_sexp v)
                        | _ -> raise (Parse_error "dict entry")) entries)
  | _ -> raise (Parse_error ("value: " ^ sexp_to_string x))
and key_of_sexp (x : sexp) : dkey =
  match val_of_sexp x with
  | VUndef -> KUndef | VNull -> KNull | VBool b -> KBool b | VStr s -> KStr s
  | _ -> raise (Parse_error "key")

let opt_val_of_sexp (x : sexp) : val0 option =
  match x with A "none" -> None | L [A "some"; v] -> Some (val_of_sexp v) | _ -> raise (Parse_error "option")
