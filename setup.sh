#!/bin/sh
# Build the framework from files on disk only (offline): Coq development, extracted OCaml driver,
# Rust harness (debug + release) against /repo's working tree.
set -e
cd /verif
export CARGO_NET_OFFLINE=true
mkdir -p .build/ocaml evidence replays
if [ ! -f coq/Base/UnicodeTables.v ]; then echo "missing UnicodeTables.v"; exit 1; fi
tools/mkcoqproject.sh
( cd coq && timeout 3000 make -j16 ) 2>&1 | tail -5
tools/build_driver.sh
cp /repo/Cargo.lock harness/Cargo.lock
( cd harness && RUSTFLAGS="--cfg rrss_verif" cargo build --offline && RUSTFLAGS="--cfg rrss_verif" cargo build --offline --release ) 2>&1 | tail -3
echo "setup done"
