//! EXEC / IO suites: run a program through the real parser and interpreter with fault-injecting
//! reader and writer; AST suite: serialise what the real parser produced.
use crate::astser;
use crate::sx::{hex, Sx};
use rrss::exec::environment::EnvironmentError;
use rrss::exec::exec_stmt::ExecError;
use rrss::exec::produce_val::ProduceValError;
use rrss::exec::sym_table::SymTableError;
use rrss::exec::write_val::WriteValError;
use rrss::exec::RuntimeError;
use rrss::frontend::parser;
use std::io::{Read, Write};

pub struct FaultyWriter {
    pub buf: Vec<u8>,
    pub budget: Option<usize>,
}
impl Write for FaultyWriter {
    fn write(&mut self, data: &[u8]) -> std::io::Result<usize> {
        match self.budget {
            None => {
                self.buf.extend_from_slice(data);
                Ok(data.len())
            }
            Some(b) => {
                if data.is_empty() {
                    return Ok(0);
                }
                if b == 0 {
                    return Err(std::io::Error::new(std::io::ErrorKind::Other, "injected write fault"));
                }
                let n = b.min(data.len());
                self.buf.extend_from_slice(&data[..n]);
                self.budget = Some(b - n);
                Ok(n)
            }
        }
    }
    fn flush(&mut self) -> std::io::Result<()> {
        Ok(())
    }
}

pub struct FaultyReader {
    pub data: Vec<u8>,
    pub pos: usize,
    pub fault: Option<usize>,
    pub requested_after_fault: usize,
}
impl Read for FaultyReader {
    fn read(&mut self, out: &mut [u8]) -> std::io::Result<usize> {
        if let Some(f) = self.fault {
            if self.pos >= f {
                self.requested_after_fault += 1;
                return Err(std::io::Error::new(std::io::ErrorKind::Other, "injected read fault"));
            }
        }
        let limit = match self.fault {
            Some(f) => f.min(self.data.len()),
            None => self.data.len(),
        };
        let n = (limit - self.pos.min(limit)).min(out.len());
        out[..n].copy_from_slice(&self.data[self.pos..self.pos + n]);
        self.pos += n;
        Ok(n)
    }
}

pub fn rt_error_name(e: &RuntimeError) -> &'static str {
    match e {
        RuntimeError::EnvironmentError(EnvironmentError::SymTableError(s)) => match s {
            SymTableError::NameNotFound(_) => "NameNotFound",
            SymTableError::ExpectedVarFoundFunc(_) => "ExpectedVarFoundFunc",
            SymTableError::ExpectedFuncFoundVar(_) => "ExpectedFuncFoundVar",
            SymTableError::DuplicateSymbol(_) => "DuplicateSymbol",
            SymTableError::DuplicateFunctionArgName(_) => "DuplicateFunctionArgName",
        },
        RuntimeError::EnvironmentError(EnvironmentError::MissingPronounReferent) => "MissingPronounReferent",
        RuntimeError::EnvironmentError(EnvironmentError::IOError(_)) => "IOError",
        RuntimeError::ValError(v) => crate::valsuite::val_error_name(v),
        RuntimeError::WriteValError(WriteValError::ValueNotWritable) => "ValueNotWritable",
        RuntimeError::ExecError(ExecError::NonCompoundAssignmentExpressionListInvalid) => {
            "NonCompoundAssignmentExpressionListInvalid"
        }
        RuntimeError::ProduceValError(ProduceValError::WrongNumberOfFunctionArguments { .. }) => {
            "WrongNumberOfFunctionArguments"
        }
    }
}

fn opt_usize(x: &Sx) -> Result<Option<usize>, String> {
    match x.atom()? {
        "none" => Ok(None),
        a => a.parse::<usize>().map(Some).map_err(|e| e.to_string()),
    }
}

fn hexbytes(b: &[u8]) -> String {
    let mut s = String::with_capacity(2 * b.len());
    for x in b {
        s.push_str(&format!("{:02x}", x));
    }
    s
}

/// (exec <id> run <src> <stdin> <write-budget|none> <read-fault|none>)
pub fn run_exec(op: &str, args: &[Sx]) -> Result<String, String> {
    let src = args.get(0).ok_or("src")?.string()?;
    match op {
        "ast" => Ok(match parser::parse(&src) {
            Ok(p) => format!("ok {}", astser::program(&p)),
            Err(e) => format!("parse-error {}", hex(&e.to_string())),
        }),
        // (exec <id> parse <src>): tree, or error code + line + rendered message
        "parse" => Ok(match parser::parse(&src) {
            Ok(p) => format!("ok {}", astser::program(&p)),
            Err(e) => {
                let code = format!("{:?}", e.code);
                let name: String = code.chars().take_while(|c| c.is_alphanumeric()).collect();
                let line = match &e.loc {
                    rrss::frontend::parser::ParseErrorLocation::Token(t) => t.range.start().line,
                    rrss::frontend::parser::ParseErrorLocation::Line(l) => *l,
                };
                format!("err {} {} {}", name, line, hex(&e.to_string()))
            }
        }),
        "run" | "runbytes" => {
            // runbytes: the input is given as raw bytes (hex), possibly not valid UTF-8
            let stdin_bytes: Vec<u8> = if op == "runbytes" {
                let a = args.get(1).ok_or("stdin")?.atom()?;
                let h = a.trim_start_matches('#');
                (0..h.len() / 2).map(|i| u8::from_str_radix(&h[2 * i..2 * i + 2], 16).unwrap_or(0)).collect()
            } else {
                args.get(1).ok_or("stdin")?.string()?.into_bytes()
            };
            let wb = opt_usize(args.get(2).ok_or("wbudget")?)?;
            let rf = opt_usize(args.get(3).ok_or("rfault")?)?;
            let program = match parser::parse(&src) {
                Ok(p) => p,
                Err(e) => return Ok(format!("parse-error {}", hex(&e.to_string()))),
            };
            let mut w = FaultyWriter { buf: Vec::new(), budget: wb };
            let mut r = FaultyReader { data: stdin_bytes, pos: 0, fault: rf, requested_after_fault: 0 };
            let res = rrss::exec::exec_using(&mut r, &mut w, &program);
            let status = match &res {
                Ok(()) => "ok".to_string(),
                Err(e) => format!("err {} {}", rt_error_name(e), hex(&e.to_string())),
            };
            Ok(format!("{} out:{}", status, hexbytes(&w.buf)))
        }
        _ => Ok(format!("unknown-op {}", op)),
    }
}
