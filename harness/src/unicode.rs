use crate::sx::Sx;

fn ranges(pred: impl Fn(char) -> bool) -> Vec<(u32, u32)> {
    let mut out = Vec::new();
    let mut cur: Option<(u32, u32)> = None;
    for cp in 0u32..0x110000 {
        let ok = char::from_u32(cp).map_or(false, |c| pred(c));
        match (ok, cur) {
            (true, None) => cur = Some((cp, cp)),
            (true, Some((lo, _))) => cur = Some((lo, cp)),
            (false, Some(r)) => {
                out.push(r);
                cur = None
            }
            (false, None) => {}
        }
    }
    if let Some(r) = cur {
        out.push(r)
    }
    out
}

pub fn unicode_dump() {
    let p = |name: &str, rs: Vec<(u32, u32)>| {
        println!("{} {}", name, rs.iter().map(|(a, b)| format!("{}-{}", a, b)).collect::<Vec<_>>().join(","));
    };
    p("alphabetic", ranges(|c| c.is_alphabetic()));
    p("numeric", ranges(|c| c.is_numeric()));
    p("whitespace", ranges(|c| c.is_whitespace()));
    p("uppercase", ranges(|c| c.is_uppercase()));
    p("lowercase", ranges(|c| c.is_lowercase()));
    let mut lower = Vec::new();
    for cp in 0u32..0x110000 {
        if let Some(c) = char::from_u32(cp) {
            let l: Vec<u32> = c.to_lowercase().map(|x| x as u32).collect();
            if l != vec![cp] {
                lower.push(format!("{}:{}", cp, l.iter().map(|x| x.to_string()).collect::<Vec<_>>().join("+")));
            }
        }
    }
    println!("tolower {}", lower.join(","));
}

/// (uni <id> <lo> <hi>): flags of every code point in [lo, hi) that has any, same format as the driver
fn tables_line() -> String {
    let p = |name: &str, rs: Vec<(u32, u32)>| {
        format!("{} {}", name, rs.iter().map(|(a, b)| format!("{}-{}", a, b)).collect::<Vec<_>>().join(","))
    };
    let mut lower = Vec::new();
    for cp in 0u32..0x110000 {
        if let Some(c) = char::from_u32(cp) {
            let l: Vec<u32> = c.to_lowercase().map(|x| x as u32).collect();
            if l != vec![cp] {
                lower.push(format!("{}:{}", cp, l.iter().map(|x| x.to_string()).collect::<Vec<_>>().join("+")));
            }
        }
    }
    [
        p("alphabetic", ranges(|c| c.is_alphabetic())),
        p("numeric", ranges(|c| c.is_numeric())),
        p("whitespace", ranges(|c| c.is_whitespace())),
        p("uppercase", ranges(|c| c.is_uppercase())),
        p("lowercase", ranges(|c| c.is_lowercase())),
        format!("tolower {}", lower.join(",")),
    ]
    .join(";")
}

pub fn run_uni(op: &str, args: &[Sx]) -> Result<String, String> {
    if op == "tables" {
        return Ok(tables_line());
    }
    if op == "points" {
        let mut parts = Vec::new();
        for a in args {
            let c = a.int()? as u32;
            parts.push(run_uni(&c.to_string(), &[Sx::A((c + 1).to_string())])?);
        }
        return Ok(parts.join(";"));
    }
    let lo: u32 = op.parse().map_err(|_| "lo")?;
    let hi: u32 = args.get(0).ok_or("hi")?.int()? as u32;
    let mut b = String::new();
    for cp in lo..hi {
        if let Some(c) = char::from_u32(cp) {
            let fl = (c.is_alphabetic() as u32)
                | ((c.is_numeric() as u32) << 1)
                | ((c.is_whitespace() as u32) << 2)
                | ((c.is_uppercase() as u32) << 3)
                | ((c.is_lowercase() as u32) << 4);
            let low: Vec<u32> = c.to_lowercase().map(|x| x as u32).collect();
            if fl != 0 || low != vec![cp] {
                b.push_str(&format!(
                    "{:x}:{:x}:{};",
                    cp,
                    fl,
                    low.iter().map(|x| format!("{:x}", x)).collect::<Vec<_>>().join("+")
                ));
            }
        }
    }
    Ok(b)
}
