//! Serialisation of the rrss syntax tree (with source ranges) to the shared S-expression form.
use crate::sx::{fbits, hex};
use rrss::frontend::ast::*;
use rrss::frontend::source_range::{SourceLocation, SourceRange};

fn r(x: &SourceRange) -> String {
    format!("(r {} {} {} {})", x.start().line, x.start().column, x.end().line, x.end().column)
}
fn l(x: &SourceLocation) -> String {
    format!("(@ {} {})", x.line, x.column)
}
fn lit(x: &LiteralExpression) -> String {
    match x {
        LiteralExpression::Mysterious => "(mys)".into(),
        LiteralExpression::Boolean(b) => format!("(bool {})", *b as u8),
        LiteralExpression::Null => "(null)".into(),
        LiteralExpression::Number(n) => format!("(num {})", fbits(*n)),
        LiteralExpression::String(s) => format!("(str {})", hex(s)),
    }
}
pub fn varname(v: &VariableName) -> String {
    match v {
        VariableName::Simple(s) => format!("(simple {})", hex(&s.0)),
        VariableName::Common(c) => format!("(common {} {})", hex(&c.0), hex(&c.1)),
        VariableName::Proper(p) => format!("(proper {})", p.0.iter().map(|w| hex(w)).collect::<Vec<_>>().join(" ")),
    }
}
fn ident(i: &Identifier) -> String {
    match i {
        Identifier::VariableName(v) => varname(v),
        Identifier::Pronoun => "(pronoun)".into(),
    }
}
fn binop(o: BinaryOperator) -> &'static str {
    match o {
        BinaryOperator::Plus => "plus",
        BinaryOperator::Minus => "minus",
        BinaryOperator::Multiply => "times",
        BinaryOperator::Divide => "over",
        BinaryOperator::And => "and",
        BinaryOperator::Or => "or",
        BinaryOperator::Nor => "nor",
        BinaryOperator::Eq => "eq",
        BinaryOperator::NotEq => "ne",
        BinaryOperator::Greater => "gt",
        BinaryOperator::GreaterEq => "ge",
        BinaryOperator::Less => "lt",
        BinaryOperator::LessEq => "le",
    }
}
fn primary(p: &PrimaryExpression) -> String {
    match p {
        PrimaryExpression::Literal(w) => format!("(lit {} {})", lit(&w.0), r(&w.1)),
        PrimaryExpression::Identifier(w) => format!("(id {} {})", ident(&w.0), r(&w.1)),
        PrimaryExpression::ArraySubscript(a) => subscript(a),
        PrimaryExpression::FunctionCall(f) => format!("(call {})", call(f)),
        PrimaryExpression::ArrayPop(a) => format!("(pop {})", primary(&a.array)),
    }
}
fn subscript(a: &ArraySubscript) -> String {
    format!("(sub {} {})", primary(&a.array), primary(&a.subscript))
}
fn call(f: &FunctionCall) -> String {
    let mut s = format!("{} {}", varname(&f.name.0), r(&f.name.1));
    for a in &f.args {
        s.push(' ');
        s.push_str(&expr(a));
    }
    s
}
pub fn expr(e: &Expression) -> String {
    match e {
        Expression::PrimaryExpression(p) => primary(p),
        Expression::BinaryExpression(b) => {
            let mut s = format!("(bin {} {}", binop(b.operator), expr(&b.lhs));
            for x in b.rhs.iter() {
                s.push(' ');
                s.push_str(&expr(x));
            }
            s.push(')');
            s
        }
        Expression::UnaryExpression(u) => format!(
            "(un {} {})",
            match u.operator {
                UnaryOperator::Minus => "neg",
                UnaryOperator::Not => "not",
            },
            expr(&u.operand)
        ),
    }
}
fn lhs(x: &AssignmentLHS) -> String {
    match x {
        AssignmentLHS::Identifier(w) => format!("(id {} {})", ident(&w.0), r(&w.1)),
        AssignmentLHS::ArraySubscript(a) => subscript(a),
    }
}
fn opt<T>(x: &Option<T>, f: impl Fn(&T) -> String) -> String {
    match x {
        Some(v) => f(v),
        None => "none".into(),
    }
}
fn elist(el: &ExpressionList) -> String {
    el.iter().map(expr).collect::<Vec<_>>().join(" ")
}
fn plit(p: &PoeticNumberLiteral) -> String {
    let items: Vec<String> = p
        .elems
        .iter()
        .map(|e| match e {
            PoeticNumberLiteralElem::Word(s) => format!("(w {})", hex(s)),
            PoeticNumberLiteralElem::WordSuffix(s) => format!("(x {})", hex(s)),
            PoeticNumberLiteralElem::Dot => "(dot)".into(),
        })
        .collect();
    format!("(plit {})", items.join(" "))
}
pub fn stmt(s: &Statement) -> String {
    match s {
        Statement::Assignment(a) => {
            let AssignmentRHS::ExpressionList(el) = &a.value;
            format!("(assign {} {} {})", lhs(&a.dest), opt(&a.operator, |o| binop(*o).to_string()), elist(el))
        }
        Statement::PoeticAssignment(PoeticAssignment::Number(a)) => format!(
            "(pnum {} {})",
            lhs(&a.dest),
            match &a.rhs {
                PoeticNumberAssignmentRHS::Expression(e) => format!("(expr {})", expr(e)),
                PoeticNumberAssignmentRHS::PoeticNumberLiteral(p) => plit(p),
            }
        ),
        Statement::PoeticAssignment(PoeticAssignment::String(a)) => format!("(pstr {} {})", lhs(&a.dest), hex(&a.rhs)),
        Statement::If(i) => format!("(if {} {} {})", expr(&i.condition), block(&i.then_block), opt(&i.else_block, block)),
        Statement::While(w) => format!("(while {} {})", expr(&w.condition), block(&w.block)),
        Statement::Until(w) => format!("(until {} {})", expr(&w.condition), block(&w.block)),
        Statement::Inc(i) => format!("(inc {} {} {})", ident(&i.dest.0), r(&i.dest.1), i.amount),
        Statement::Dec(i) => format!("(dec {} {} {})", ident(&i.dest.0), r(&i.dest.1), i.amount),
        Statement::Input(i) => match &i.dest {
            InputDest::Some(d) => format!("(input {})", lhs(d)),
            InputDest::None(loc) => format!("(input {})", l(loc)),
        },
        Statement::Output(o) => format!("(output {})", expr(&o.value)),
        Statement::Mutation(m) => format!(
            "(mut {} {} {} {})",
            match m.operator {
                MutationOperator::Cut => "cut",
                MutationOperator::Join => "join",
                MutationOperator::Cast => "cast",
            },
            primary(&m.operand),
            opt(&m.dest, lhs),
            opt(&m.param, expr)
        ),
        Statement::Rounding(x) => format!(
            "(round {} {})",
            match x.direction {
                RoundingDirection::Up => "up",
                RoundingDirection::Down => "down",
                RoundingDirection::Nearest => "nearest",
            },
            expr(&x.operand)
        ),
        Statement::Continue(c) => format!("(continue {})", r(&c.0)),
        Statement::Break(c) => format!("(break {})", r(&c.0)),
        Statement::ArrayPush(a) => format!(
            "(push {} {})",
            primary(&a.array),
            match &a.value {
                None => "none".to_string(),
                Some(ArrayPushRHS::ExpressionList(el)) => format!("(list {})", elist(el)),
                Some(ArrayPushRHS::PoeticNumberLiteral(p)) => plit(p),
            }
        ),
        Statement::ArrayPop(a) => format!("(popst {} {})", primary(&a.expr.array), opt(&a.dest, lhs)),
        Statement::Return(x) => format!("(return {})", expr(&x.value)),
        Statement::Function(f) => format!(
            "(func {} {} ({}) {})",
            varname(&f.name.0),
            r(&f.name.1),
            f.data.params.iter().map(|p| format!("({} {})", varname(&p.0), r(&p.1))).collect::<Vec<_>>().join(" "),
            block(&f.data.body)
        ),
        Statement::FunctionCall(f) => format!("(callst {})", call(f)),
    }
}
pub fn block(b: &Block) -> String {
    match b {
        Block::Empty(loc) => format!("(empty {} {})", loc.line, loc.column),
        Block::NonEmpty(ss) => format!("(block {})", ss.iter().map(stmt).collect::<Vec<_>>().join(" ")),
    }
}
pub fn program(p: &Program) -> String {
    if p.code.is_empty() {
        return "(program)".into();
    }
    format!("(program {})", p.code.iter().map(block).collect::<Vec<_>>().join(" "))
}
