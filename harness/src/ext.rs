//! further suites are added here
use crate::sx::Sx;
pub fn run(suite: &str, _op: &str, _args: &[Sx]) -> Result<String, String> {
    Ok(format!("unknown-suite {}", suite))
}
