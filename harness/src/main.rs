//! Correspondence harness: runs the real rrss code on a case file, one result line per case.
//! Case line:  (<suite> <id> <op> <args...>)      Result line:  <id>\t<result>
mod sx;
mod unicode;
mod valsuite;
mod ext;
mod astser;
mod execsuite;
mod lexsuite;
mod analysissuite;

use std::io::{BufRead, Write};
use sx::Sx;

pub const SIZE_BUDGET: u64 = 65536;

fn case_timeout_secs() -> u64 {
    std::env::var("VERIF_CASE_TIMEOUT").ok().and_then(|s| s.parse().ok()).unwrap_or(5)
}

fn run_case(line: &str) -> String {
    let sx = match sx::parse(line) {
        Ok(s) => s,
        Err(e) => return format!("?\tharness-error {}", e),
    };
    let items = match sx.list() {
        Ok(l) if l.len() >= 3 => l,
        _ => return "?\tharness-error bad-case-line".into(),
    };
    let suite = items[0].atom().unwrap_or("?").to_string();
    let id = items[1].atom().unwrap_or("?").to_string();
    let op = items[2].atom().unwrap_or("?").to_string();
    let args: Vec<Sx> = items[3..].to_vec();
    let (tx, rx) = std::sync::mpsc::channel();
    let builder = std::thread::Builder::new().stack_size(256 * 1024 * 1024);
    let handle = builder.spawn(move || {
    let r = std::panic::catch_unwind(move || -> Result<String, String> {
        match suite.as_str() {
            "val" => valsuite::run_val(&op, &args),
            "f64" => valsuite::run_f64(&op, &args),
            "uni" => unicode::run_uni(&op, &args),
            "exec" => execsuite::run_exec(&op, &args),
            "lex" => lexsuite::run_lex(&op, &args),
            "ana" => analysissuite::run_analysis(&op, &args),
            _ => ext::run(&suite, &op, &args),
        }
    });
    let text = match r {
        Ok(Ok(t)) => t,
        Ok(Err(e)) => format!("harness-error {}", e),
        Err(_) => "panic".to_string(),
    };
    let _ = tx.send(text);
    });
    let text = match handle {
        Err(_) => "harness-error spawn".to_string(),
        Ok(_) => match rx.recv_timeout(std::time::Duration::from_secs(case_timeout_secs())) {
            Ok(t) => t,
            Err(_) => "timeout".to_string(),
        },
    };
    format!("{}\t{}", id, text)
}

fn main() {
    let args: Vec<String> = std::env::args().collect();
    match args.get(1).map(|s| s.as_str()) {
        Some("unicode-dump") => unicode::unicode_dump(),
        Some("run") => {
            std::panic::set_hook(Box::new(|_| {}));
            let input = std::fs::File::open(&args[2]).expect("case file");
            let mut out: Box<dyn Write> = match args.get(3) {
                Some(p) => Box::new(std::io::BufWriter::new(std::fs::File::create(p).expect("out file"))),
                None => Box::new(std::io::stdout()),
            };
            for line in std::io::BufReader::new(input).lines() {
                let line = line.expect("read");
                if line.starts_with('(') {
                    writeln!(out, "{}", run_case(&line)).unwrap();
                    out.flush().unwrap();
                }
            }
            out.flush().unwrap();
            // abandoned (timed-out) threads must not keep the process alive
            std::process::exit(0);
        }
        _ => {
            eprintln!("usage: harness run <cases> [<out>] | unicode-dump");
            std::process::exit(2)
        }
    }
}
