fn main() {
    let args: Vec<String> = std::env::args().collect();
    match args.get(1).map(|s| s.as_str()) {
        Some("unicode-dump") => unicode_dump(),
        _ => { eprintln!("usage"); std::process::exit(2) }
    }
}

fn ranges(pred: impl Fn(char) -> bool) -> Vec<(u32, u32)> {
    let mut out = Vec::new();
    let mut cur: Option<(u32, u32)> = None;
    for cp in 0u32..0x110000 {
        let ok = char::from_u32(cp).map_or(false, |c| pred(c));
        match (ok, cur) {
            (true, None) => cur = Some((cp, cp)),
            (true, Some((lo, _))) => cur = Some((lo, cp)),
            (false, Some(r)) => { out.push(r); cur = None }
            (false, None) => {}
        }
    }
    if let Some(r) = cur { out.push(r) }
    out
}

fn unicode_dump() {
    let p = |name: &str, rs: Vec<(u32, u32)>| {
        println!("{} {}", name, rs.iter().map(|(a, b)| format!("{}-{}", a, b)).collect::<Vec<_>>().join(","));
    };
    p("alphabetic", ranges(|c| c.is_alphabetic()));
    p("numeric", ranges(|c| c.is_numeric()));
    p("whitespace", ranges(|c| c.is_whitespace()));
    p("uppercase", ranges(|c| c.is_uppercase()));
    p("lowercase", ranges(|c| c.is_lowercase()));
    let mut lower = Vec::new();
    for cp in 0u32..0x110000 {
        if let Some(c) = char::from_u32(cp) {
            let l: Vec<u32> = c.to_lowercase().map(|x| x as u32).collect();
            if l != vec![cp] {
                lower.push(format!("{}:{}", cp, l.iter().map(|x| x.to_string()).collect::<Vec<_>>().join("+")));
            }
        }
    }
    println!("tolower {}", lower.join(","));
}
