//! VISIT / FOLD / LINT suites against the public analysis and linter APIs.
use crate::sx::{fbits, hex, Sx};
use rrss::analysis::tools::{ConstantFoldingError, NumericConstantFolder, SimpleStringConstantFolder};
use rrss::analysis::visit::{self, Combine, ExprVisitorRunner, Visit, VisitExpr, VisitProgram};
use rrss::frontend::ast::*;
use rrss::frontend::parser;
use rrss::frontend::source_range::SourceRange;

#[derive(Default, Debug)]
pub struct Log(Vec<String>);
impl Combine for Log {
    fn combine(mut self, other: Self) -> Self {
        self.0.extend(other.0);
        self
    }
}

/// Records every leaf callback; fails at the k-th one (0-based) with Err(k).
pub struct Recorder {
    calls: usize,
    fail_at: Option<usize>,
}
impl Recorder {
    fn emit(&mut self, text: String) -> Result<Log, usize> {
        let k = self.calls;
        self.calls += 1;
        if Some(k) == self.fail_at {
            Err(k)
        } else {
            Ok(Log(vec![text]))
        }
    }
}
fn r(x: &SourceRange) -> String {
    format!("(r {} {} {} {})", x.start().line, x.start().column, x.end().line, x.end().column)
}
impl Visit for Recorder {
    type Output = Log;
    type Error = usize;
}
impl VisitExpr for Recorder {
    fn visit_poetic_number_literal_elem(&mut self, p: &PoeticNumberLiteralElem) -> visit::Result<Self> {
        let t = match p {
            PoeticNumberLiteralElem::Word(s) => format!("(elem (w {}))", hex(s)),
            PoeticNumberLiteralElem::WordSuffix(s) => format!("(elem (x {}))", hex(s)),
            PoeticNumberLiteralElem::Dot => "(elem (dot))".into(),
        };
        self.emit(t)
    }
    fn visit_binary_operator(&mut self, o: BinaryOperator) -> visit::Result<Self> {
        self.emit(format!("(binop {:?})", o))
    }
    fn visit_unary_operator(&mut self, o: UnaryOperator) -> visit::Result<Self> {
        self.emit(format!("(unop {:?})", o))
    }
    fn visit_literal_expression(&mut self, e: &WithRange<LiteralExpression>) -> visit::Result<Self> {
        let l = match &e.0 {
            LiteralExpression::Mysterious => "(mys)".to_string(),
            LiteralExpression::Boolean(b) => format!("(bool {})", *b as u8),
            LiteralExpression::Null => "(null)".into(),
            LiteralExpression::Number(n) => format!("(num {})", fbits(*n)),
            LiteralExpression::String(s) => format!("(str {})", hex(s)),
        };
        self.emit(format!("(lit {} {})", l, r(&e.1)))
    }
    fn visit_pronoun(&mut self, range: SourceRange) -> visit::Result<Self> {
        self.emit(format!("(pronoun {})", r(&range)))
    }
    fn visit_simple_identifier(&mut self, n: WithRange<&SimpleIdentifier>) -> visit::Result<Self> {
        self.emit(format!("(simple {} {})", hex(&n.0 .0), r(&n.1)))
    }
    fn visit_common_identifier(&mut self, n: WithRange<&CommonIdentifier>) -> visit::Result<Self> {
        self.emit(format!("(common {} {} {})", hex(&n.0 .0), hex(&n.0 .1), r(&n.1)))
    }
    fn visit_proper_identifier(&mut self, n: WithRange<&ProperIdentifier>) -> visit::Result<Self> {
        self.emit(format!(
            "(proper {} {})",
            n.0 .0.iter().map(|w| hex(w)).collect::<Vec<_>>().join(" "),
            r(&n.1)
        ))
    }
}

/// A visitor whose output is NOT a monoid: default "0", combine a b = "(a+b)", every leaf "x".
/// Shows how the results are folded (from the default, left to right), not only which leaves are seen.
#[derive(Debug)]
pub struct Shape(String);
impl Default for Shape {
    fn default() -> Self {
        Shape("0".into())
    }
}
impl Combine for Shape {
    fn combine(self, other: Self) -> Self {
        Shape(format!("({}+{})", self.0, other.0))
    }
}
pub struct Shaper;
impl Visit for Shaper {
    type Output = Shape;
    type Error = usize;
}
impl VisitExpr for Shaper {
    fn visit_poetic_number_literal_elem(&mut self, _: &PoeticNumberLiteralElem) -> visit::Result<Self> {
        Ok(Shape("e".into()))
    }
    fn visit_binary_operator(&mut self, _: BinaryOperator) -> visit::Result<Self> {
        Ok(Shape("b".into()))
    }
    fn visit_unary_operator(&mut self, _: UnaryOperator) -> visit::Result<Self> {
        Ok(Shape("u".into()))
    }
    fn visit_literal_expression(&mut self, _: &WithRange<LiteralExpression>) -> visit::Result<Self> {
        Ok(Shape("l".into()))
    }
    fn visit_pronoun(&mut self, _: SourceRange) -> visit::Result<Self> {
        Ok(Shape("p".into()))
    }
    fn visit_simple_identifier(&mut self, _: WithRange<&SimpleIdentifier>) -> visit::Result<Self> {
        Ok(Shape("s".into()))
    }
    fn visit_common_identifier(&mut self, _: WithRange<&CommonIdentifier>) -> visit::Result<Self> {
        Ok(Shape("c".into()))
    }
    fn visit_proper_identifier(&mut self, _: WithRange<&ProperIdentifier>) -> visit::Result<Self> {
        Ok(Shape("n".into()))
    }
}

fn fold_err(e: ConstantFoldingError) -> &'static str {
    match e {
        ConstantFoldingError::NoType => "NoType",
        ConstantFoldingError::UnknownValue => "UnknownValue",
        ConstantFoldingError::WrongType => "WrongType",
        ConstantFoldingError::NeedMoreInfo => "NeedMoreInfo",
        ConstantFoldingError::PossibleValueIgnored => "PossibleValueIgnored",
    }
}

fn collect_output_exprs<'a>(b: &'a Block, out: &mut Vec<&'a Expression>) {
    if let Block::NonEmpty(ss) = b {
        for s in ss {
            if let Statement::Output(o) = s {
                out.push(&o.value);
            }
        }
    }
}

pub fn run_analysis(op: &str, args: &[Sx]) -> Result<String, String> {
    let src = args.get(0).ok_or("src")?.string()?;
    let program = match parser::parse(&src) {
        Ok(p) => p,
        Err(e) => return Ok(format!("parse-error {}", hex(&e.to_string()))),
    };
    match op {
        // (ana <id> visit <src> <k|none>)
        "visit" => {
            let fail_at = match args.get(1).ok_or("k")?.atom()? {
                "none" => None,
                a => Some(a.parse::<usize>().map_err(|e| e.to_string())?),
            };
            let mut runner = ExprVisitorRunner::with_inner(Recorder { calls: 0, fail_at });
            let res = runner.visit_program(&program);
            let calls = runner.inner().calls;
            Ok(match res {
                Ok(log) => format!("ok calls={} {}", calls, log.0.join(" ")),
                Err(k) => format!("err {} calls={}", k, calls),
            })
        }
        // (ana <id> shape <src>): how the results are combined
        "shape" => {
            let mut runner = ExprVisitorRunner::with_inner(Shaper);
            Ok(match runner.visit_program(&program) {
                Ok(sh) => format!("ok {}", sh.0),
                Err(k) => format!("err {}", k),
            })
        }
        // (ana <id> fold <src>): both folders on the expression of every top-level `say`
        "fold" => {
            let mut exprs = Vec::new();
            for b in &program.code {
                collect_output_exprs(b, &mut exprs);
            }
            let mut out = Vec::new();
            for e in exprs {
                let n = match NumericConstantFolder.visit_expression(e) {
                    Ok(c) => format!("ok:{}", fbits(c.value)),
                    Err(x) => format!("err:{}", fold_err(x)),
                };
                let s = match SimpleStringConstantFolder.visit_expression(e) {
                    Ok(c) => format!("ok:{}", hex(&c.value)),
                    Err(x) => format!("err:{}", fold_err(x)),
                };
                out.push(format!("({} {})", n, s));
            }
            // ... and on every poetic number literal of a top-level assignment or array push
            for b in &program.code {
                if let Block::NonEmpty(ss) = b {
                    for st in ss {
                        let lit = match st {
                            Statement::PoeticAssignment(PoeticAssignment::Number(PoeticNumberAssignment {
                                rhs: PoeticNumberAssignmentRHS::PoeticNumberLiteral(p),
                                ..
                            })) => Some(p),
                            Statement::ArrayPush(ArrayPush { value: Some(ArrayPushRHS::PoeticNumberLiteral(p)), .. }) => Some(p),
                            _ => None,
                        };
                        if let Some(p) = lit {
                            let n = match NumericConstantFolder.visit_poetic_number_literal(p) {
                                Ok(c) => format!("ok:{}", fbits(c.value)),
                                Err(x) => format!("err:{}", fold_err(x)),
                            };
                            let s = match SimpleStringConstantFolder.visit_poetic_number_literal(p) {
                                Ok(c) => format!("ok:{}", hex(&c.value)),
                                Err(x) => format!("err:{}", fold_err(x)),
                            };
                            out.push(format!("(poetic {} {})", n, s));
                        }
                    }
                }
            }
            Ok(format!("ok {}", out.join(" ")))
        }
        // (ana <id> lint <src>)
        "lint" => {
            let result = rrss::linter::standard_linter().run(&program);
            let items: Vec<String> = result
                .diags
                .iter()
                .map(|d| {
                    format!(
                        "(diag {} {} {})",
                        d.line,
                        hex(&d.issue),
                        d.suggestions.iter().map(|s| hex(s)).collect::<Vec<_>>().join(" ")
                    )
                })
                .collect();
            Ok(format!("ok {} text={}", items.join(" "), hex(&result.to_string())))
        }
        _ => Ok(format!("unknown-op {}", op)),
    }
}
