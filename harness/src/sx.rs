//! S-expressions shared with the OCaml model driver.
#[derive(Clone, Debug, PartialEq)]
pub enum Sx {
    A(String),
    L(Vec<Sx>),
}

pub fn parse(s: &str) -> Result<Sx, String> {
    let b = s.as_bytes();
    let mut pos = 0usize;
    fn skip(b: &[u8], pos: &mut usize) {
        while *pos < b.len() && (b[*pos] == b' ' || b[*pos] == b'\t' || b[*pos] == b'\n' || b[*pos] == b'\r') {
            *pos += 1;
        }
    }
    fn one(b: &[u8], pos: &mut usize) -> Result<Sx, String> {
        skip(b, pos);
        if *pos >= b.len() {
            return Err("eof".into());
        }
        if b[*pos] == b'(' {
            *pos += 1;
            let mut items = Vec::new();
            loop {
                skip(b, pos);
                if *pos >= b.len() {
                    return Err("unclosed".into());
                }
                if b[*pos] == b')' {
                    *pos += 1;
                    return Ok(Sx::L(items));
                }
                items.push(one(b, pos)?);
            }
        } else {
            let st = *pos;
            while *pos < b.len() && !matches!(b[*pos], b' ' | b'(' | b')' | b'\t' | b'\n' | b'\r') {
                *pos += 1;
            }
            Ok(Sx::A(String::from_utf8_lossy(&b[st..*pos]).into_owned()))
        }
    }
    one(b, &mut pos)
}

impl Sx {
    pub fn atom(&self) -> Result<&str, String> {
        match self {
            Sx::A(a) => Ok(a),
            _ => Err("atom expected".into()),
        }
    }
    pub fn list(&self) -> Result<&[Sx], String> {
        match self {
            Sx::L(l) => Ok(l),
            _ => Err("list expected".into()),
        }
    }
    pub fn string(&self) -> Result<String, String> {
        let a = self.atom()?;
        if !a.starts_with('#') {
            return Err(format!("string atom expected: {}", a));
        }
        let h = &a[1..];
        let mut bytes = Vec::with_capacity(h.len() / 2);
        let hb = h.as_bytes();
        let mut i = 0;
        while i + 1 < hb.len() {
            bytes.push(u8::from_str_radix(&h[i..i + 2], 16).map_err(|e| e.to_string())?);
            i += 2;
        }
        String::from_utf8(bytes).map_err(|e| e.to_string())
    }
    pub fn int(&self) -> Result<i64, String> {
        self.atom()?.parse::<i64>().map_err(|e| e.to_string())
    }
    pub fn f64bits(&self) -> Result<f64, String> {
        Ok(f64::from_bits(u64::from_str_radix(self.atom()?, 16).map_err(|e| e.to_string())?))
    }
}

pub fn hex(s: &str) -> String {
    let mut out = String::with_capacity(1 + 2 * s.len());
    out.push('#');
    for b in s.as_bytes() {
        out.push_str(&format!("{:02x}", b));
    }
    out
}

pub fn fbits(x: f64) -> String {
    if x.is_nan() {
        "7ff8000000000000".into()
    } else {
        format!("{:016x}", x.to_bits())
    }
}
