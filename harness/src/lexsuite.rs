//! LEX suite: the real lexer's tokens with spelling, byte offset, range and post-state.
use crate::sx::{fbits, hex, Sx};
use rrss::frontend::lexer::{Lexer, Token, TokenType};

pub fn ttype(t: &TokenType) -> String {
    match t {
        TokenType::StringLiteral(s) => format!("(StringLiteral {})", hex(s)),
        TokenType::Number(n) => format!("(Number {})", fbits(*n)),
        TokenType::Comment(s) => format!("(Comment {})", hex(s)),
        TokenType::Error(e) => {
            // ErrorMessage's field is private: recover the text from its Debug form
            let d = format!("{:?}", e);
            let inner = d.trim_start_matches("ErrorMessage(\"").trim_end_matches("\")").replace("\\'", "'");
            format!("(Error {})", hex(&inner))
        }
        other => format!("{:?}", other),
    }
}

pub fn token(src: &str, t: &Token) -> String {
    let off = t.spelling.as_ptr() as usize - src.as_ptr() as usize;
    let r = &t.range;
    format!(
        "(tok {} {} {} {} {} {} {})",
        ttype(&t.id),
        hex(t.spelling),
        off,
        r.start().line,
        r.start().column,
        r.end().line,
        r.end().column
    )
}

/// (lex <id> tokens <src>): every token followed by the lexer's current_line/current_loc
pub fn run_lex(op: &str, args: &[Sx]) -> Result<String, String> {
    let src = args.get(0).ok_or("src")?.string()?;
    match op {
        "tokens" => {
            let mut lx = Lexer::new(&src);
            let mut out = String::from("ok");
            let mut n = 0usize;
            while let Some(t) = lx.next() {
                n += 1;
                if n > 4 * src.len() + 8 {
                    return Ok("nonterminating".into());
                }
                let loc = lx.current_loc();
                out.push_str(&format!(" {} (post {} {} {})", token(&src, &t), lx.current_line(), loc.line, loc.column));
            }
            Ok(out)
        }
        _ => Ok(format!("unknown-op {}", op)),
    }
}
