use crate::sx::{fbits, hex, Sx};
use rrss::exec::val::{Array, Val, ValError};
use std::cmp::Ordering;

pub fn val_of(x: &Sx) -> Result<Val, String> {
    match x {
        Sx::A(a) if a == "u" => Ok(Val::Undefined),
        Sx::A(a) if a == "n" => Ok(Val::Null),
        Sx::L(l) if l.len() == 2 && l[0] == Sx::A("b".into()) => Ok(Val::Boolean(l[1].atom()? == "1")),
        Sx::L(l) if l.len() == 2 && l[0] == Sx::A("f".into()) => Ok(Val::Number(l[1].f64bits()?)),
        Sx::L(l) if l.len() == 2 && l[0] == Sx::A("s".into()) => Ok(Val::from(l[1].string()?)),
        Sx::L(l) if l.len() == 3 && l[0] == Sx::A("a".into()) => {
            let mut v: Val = Array::new().into();
            let items = l[1].list()?;
            let mut vals = Vec::new();
            for it in items {
                vals.push(val_of(it)?);
            }
            v.push(vals.into_iter()).map_err(|_| "push")?;
            for e in l[2].list()? {
                let kv = e.list()?;
                let k = val_of(&kv[0])?;
                let x = val_of(&kv[1])?;
                *v.index_or_insert(&k).map_err(|_| "key")? = x;
            }
            Ok(v)
        }
        _ => Err(format!("value: {:?}", x)),
    }
}

pub fn opt_val_of(x: &Sx) -> Result<Option<Val>, String> {
    match x {
        Sx::A(a) if a == "none" => Ok(None),
        Sx::L(l) if l.len() == 2 => Ok(Some(val_of(&l[1])?)),
        _ => Err("option".into()),
    }
}

pub fn val_error_name(e: &ValError) -> &'static str {
    match e {
        ValError::NotIndexable(_) => "NotIndexable",
        ValError::InvalidKey(_) => "InvalidKey",
        ValError::IndexNotAssignable(_, _) => "IndexNotAssignable",
        ValError::InvalidOperationForType(_, _) => "InvalidOperationForType",
        ValError::InvalidComparison(_, _) => "InvalidComparison",
        ValError::InvalidSplitDelimiter(_) => "InvalidSplitDelimiter",
        ValError::InvalidJoinDelimiter(_) => "InvalidJoinDelimiter",
        ValError::InvalidArrayElementForJoin(_) => "InvalidArrayElementForJoin",
        ValError::ParsingStringAsNumberFailed(_) => "ParsingStringAsNumberFailed",
        ValError::InvalidStringToIntegerRadix(_) => "InvalidStringToIntegerRadix",
        ValError::ConvertingNumberToCharacterFailed(_) => "ConvertingNumberToCharacterFailed",
        ValError::UnexpectedParameterToNumberToCharacterCast(_) => "UnexpectedParameterToNumberToCharacterCast",
    }
}

fn verr(e: &ValError) -> String {
    format!("err {} {}", val_error_name(e), hex(&e.to_string()))
}
fn vshow(v: &Val) -> String {
    hex(&v.to_string())
}
fn okv(v: &Val) -> String {
    format!("ok {}", vshow(v))
}
fn resv(r: Result<(), ValError>, v: &Val) -> String {
    match r {
        Ok(()) => okv(v),
        Err(e) => verr(&e),
    }
}

fn over_budget_times(a: &Val, b: &Val) -> bool {
    // the model's resource budget: string repetition beyond it is not executed
    let (s, n) = match (a, b) {
        (Val::String(s), Val::Number(n)) => (s, *n),
        _ => return false,
    };
    if !(n >= 0.0) {
        return false;
    }
    let count = n as usize as u64;
    count > crate::SIZE_BUDGET || count.saturating_mul(s.chars().count() as u64) > crate::SIZE_BUDGET
}

pub fn run_val(op: &str, args: &[Sx]) -> Result<String, String> {
    let v = |i: usize| -> Result<Val, String> { val_of(args.get(i).ok_or("missing arg")?) };
    let ov = |i: usize| -> Result<Option<Val>, String> { opt_val_of(args.get(i).ok_or("missing arg")?) };
    Ok(match op {
        "display" => okv(&v(0)?),
        "output" => format!("ok {}", hex(&v(0)?.to_string_for_output())),
        "truthy" => format!("ok {}", v(0)?.is_truthy()),
        "equals" => format!("ok {}", v(0)?.equals(&v(1)?)),
        "compare" => match v(0)?.compare(&v(1)?) {
            Ok(None) => "ok none".into(),
            Ok(Some(Ordering::Equal)) => "ok eq".into(),
            Ok(Some(Ordering::Less)) => "ok lt".into(),
            Ok(Some(Ordering::Greater)) => "ok gt".into(),
            Err(e) => verr(&e),
        },
        "plus" => okv(&v(0)?.plus(&v(1)?)),
        "minus" => okv(&v(0)?.subtract(&v(1)?)),
        "times" => {
            let (a, b) = (v(0)?, v(1)?);
            if over_budget_times(&a, &b) {
                "overbudget".into()
            } else {
                okv(&a.multiply(&b))
            }
        }
        "over" => okv(&v(0)?.divide(&v(1)?)),
        "negate" => match v(0)?.negate() {
            Ok(x) => okv(&x),
            Err(e) => verr(&e),
        },
        "inc" => {
            let mut a = v(0)?;
            let k = args[1].int()? as isize;
            let r = a.inc(k);
            resv(r, &a)
        }
        "round_up" => {
            let mut a = v(0)?;
            let r = a.round_up();
            resv(r, &a)
        }
        "round_down" => {
            let mut a = v(0)?;
            let r = a.round_down();
            resv(r, &a)
        }
        "round_nearest" => {
            let mut a = v(0)?;
            let r = a.round_nearest();
            resv(r, &a)
        }
        "split" => {
            let mut a = v(0)?;
            let r = a.split(ov(1)?);
            resv(r, &a)
        }
        "join" => {
            let mut a = v(0)?;
            let r = a.join(ov(1)?);
            resv(r, &a)
        }
        "cast" => {
            let mut a = v(0)?;
            let r = a.cast(ov(1)?);
            resv(r, &a)
        }
        "index" => match v(0)?.index(&v(1)?) {
            Ok(x) => okv(&x),
            Err(e) => verr(&e),
        },
        "update" => {
            let mut a = v(0)?;
            let k = v(1)?;
            let nv = v(2)?;
            if let Val::Number(n) = &k {
                if (a.is_array() || a.is_undefined()) && (*n as usize as u64) >= crate::SIZE_BUDGET {
                    return Ok("overbudget".into());
                }
            }
            let r = a.index_or_insert(&k).map(|slot| *slot = nv);
            resv(r, &a)
        }
        "push" => {
            let mut a = v(0)?;
            let mut vals = Vec::new();
            for x in args[1].list()? {
                vals.push(val_of(x)?);
            }
            let r = a.push(vals.into_iter());
            resv(r, &a)
        }
        "pop" => {
            let mut a = v(0)?;
            match a.pop() {
                Ok(x) => format!("ok {} {}", vshow(&a), vshow(&x)),
                Err(e) => verr(&e),
            }
        }
        _ => format!("unknown-op {}", op),
    })
}

pub fn run_f64(op: &str, args: &[Sx]) -> Result<String, String> {
    Ok(match op {
        "display" => format!("ok {}", hex(&args[0].f64bits()?.to_string())),
        "parse" => match args[0].string()?.parse::<f64>() {
            Ok(x) => format!("ok {}", fbits(x)),
            Err(_) => "err".into(),
        },
        "radix" => {
            let r = args[1].int()? as u32;
            match i64::from_str_radix(&args[0].string()?, r) {
                Ok(x) => format!("ok {}", fbits(x as f64)),
                Err(_) => "err".into(),
            }
        }
        "powi" => format!("ok {}", fbits(args[0].f64bits()?.powi(args[1].int()? as i32))),
        "arith" => {
            let x = args[0].f64bits()?;
            let y = args[1].f64bits()?;
            let fs = [x + y, x - y, x * y, x / y, x.ceil(), x.floor(), x.round(), x.trunc()];
            format!(
                "ok {} {} {}",
                fs.iter().map(|f| fbits(*f)).collect::<Vec<_>>().join(" "),
                x as usize,
                fbits((x as i64) as f64)
            )
        }
        _ => format!("unknown-op {}", op),
    })
}
